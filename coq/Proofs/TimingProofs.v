(* C10: the model of TimingMap.offsets equals piecewise-linear integration (Integrate.time_of), in query order. *)
From Coq Require Import ZArith QArith Qround Qabs List Bool Lia Lqa.
From RV Require Import Base.PyNum Timing.Snapper Timing.Snap Timing.TimingMap Timing.Integrate Timing.Domain.
Import ListNotations.
Open Scope Q_scope.

(* ------------------------------------------------------------------ Python floor division / modulo on Q *)
Lemma qfloordiv_mod a b : 0 < b ->
  inject_Z (qfloordiv a b) * b + qmod a b == a /\ 0 <= qmod a b /\ qmod a b < b.
Proof.
  intro Hb. unfold qfloordiv, qmod.
  pose proof (Qfloor_le (a / b)) as F1. pose proof (Qlt_floor (a / b)) as F2.
  rewrite inject_Z_plus in F2. change (inject_Z 1) with 1 in F2.
  set (k := inject_Z (Qfloor (a / b))) in *.
  assert (E: a == (a / b) * b) by (field; lra).
  split; [lra|]. split.
  - assert (k * b <= (a / b) * b) by (apply Qmult_le_compat_r; lra). lra.
  - assert ((a / b) * b < (k + 1) * b) by (apply Qmult_lt_compat_r; lra). lra.
Qed.

(* ------------------------------------------------------------------ Snap normalisation keeps the beat value *)
Definition snap_val (met : Q) (m : Z) (b : Q) : Q := inject_Z m * met + b.

Lemma snap_norm_value m b met s : (0 <= m)%Z -> 0 < met ->
  snap_norm m b met = Some s ->
  snap_val met (s_m s) (s_b s) == snap_val met m b /\ 0 <= s_b s /\ s_b s < met /\ s_met s = met /\ (0 <= s_m s)%Z.
Proof.
  intros Hm Hmet. unfold snap_norm.
  assert (Em: (m <? 0)%Z = false) by (apply Z.ltb_ge; exact Hm). rewrite Em.
  destruct (Qlt_bool b 0 || Qle_bool met b) eqn:Ec; cbn [fst snd].
  - destruct (qfloordiv_mod b met Hmet) as [Ev [Hlo Hhi]].
    destruct (Qlt_bool (qmod b met) 0 || (m + qfloordiv b met <? 0)%Z) eqn:E2; [discriminate|].
    intro H. injection H as <-. cbn [s_m s_b s_met]. apply orb_false_iff in E2. destruct E2 as [_ E2].
    apply Z.ltb_ge in E2. unfold snap_val. pose proof (Qred_correct (qmod b met)) as Er.
    rewrite inject_Z_plus. split; [|split; [|split; [|split]]]; auto; rewrite ?Er; lra.
  - apply orb_false_iff in Ec. destruct Ec as [Ec1 Ec2]. apply Qlt_bool_false in Ec1. apply Qle_bool_false in Ec2.
    destruct (Qlt_bool b 0 || (m <? 0)%Z) eqn:E2; [discriminate|].
    intro H. injection H as <-. cbn [s_m s_b s_met]. unfold snap_val. pose proof (Qred_correct b) as Er.
    split; [|split; [|split; [|split]]]; auto; rewrite ?Er; lra.
Qed.

(* the offset of a normalised difference is beat length times the number of beats *)
Lemma snap_offset_val s bpm met : ~ bpm == 0 ->
  snap_offset s bpm met == beat_len bpm * snap_val met (s_m s) (s_b s).
Proof. intro Hb. unfold snap_offset, measure_len, snap_val. ring. Qed.

Lemma snap_sub_offset q c bpm d : (s_m c <= s_m q)%Z -> 0 < s_met c -> ~ bpm == 0 ->
  snap_sub q c = Some d ->
  snap_offset d bpm (s_met c) == beat_len bpm * seg_beats (s_met c) c q.
Proof.
  intros Hm Hmet Hb H. unfold snap_sub in H.
  assert (Hge: (0 <= s_m q - s_m c)%Z) by lia.
  destruct (snap_norm_value _ _ _ _ Hge Hmet H) as [Ev _].
  rewrite snap_offset_val by exact Hb. rewrite Ev. unfold snap_val, seg_beats. reflexivity.
Qed.

(* ------------------------------------------------------------------ the order on snaps *)
Definition sle (a b : snap) : Prop := (s_m a < s_m b)%Z \/ (s_m a = s_m b /\ s_b a <= s_b b).
Definition slt (a b : snap) : Prop := (s_m a < s_m b)%Z \/ (s_m a = s_m b /\ s_b a < s_b b).

Lemma snap_le_iff a b : snap_le a b = true <-> sle a b.
Proof.
  unfold snap_le, snap_lt, snap_eq, sle. rewrite !orb_true_iff, !andb_true_iff, Z.ltb_lt, Z.eqb_eq, Qlt_bool_iff, Qeq_bool_iff.
  split.
  - intros [[H|[H1 H2]]|[H1 H2]]; [left; exact H|right; split; [exact H1|lra]|right; split; [exact H1|lra]].
  - intros [H|[H1 H2]]; [left; left; exact H|].
    destruct (Qlt_le_dec (s_b a) (s_b b)) as [L|G]; [left; right; split; assumption|right; split; [exact H1|lra]].
Qed.
Lemma snap_lt_iff a b : snap_lt a b = true <-> slt a b.
Proof. unfold snap_lt, slt. rewrite orb_true_iff, andb_true_iff, Z.ltb_lt, Z.eqb_eq, Qlt_bool_iff. tauto. Qed.

Lemma snap_gt_le a b : snap_gt a b = negb (snap_le a b).
Proof. unfold snap_gt, snap_le. destruct (snap_lt a b), (snap_eq a b); reflexivity. Qed.

Lemma sle_trans a b c : sle a b -> sle b c -> sle a c.
Proof. unfold sle. intros [H|[H1 H2]] [G|[G1 G2]]; [left; lia|left; lia|left; lia|right; split; [lia|lra]]. Qed.
Lemma slt_sle a b : slt a b -> sle a b.
Proof. unfold slt, sle. intros [H|[H1 H2]]; [left; exact H|right; split; [exact H1|lra]]. Qed.
Lemma sle_total a b : sle a b \/ slt b a.
Proof.
  unfold sle, slt. destruct (Z.lt_trichotomy (s_m a) (s_m b)) as [H|[H|H]]; [left; left; exact H| |right; left; exact H].
  destruct (Qlt_le_dec (s_b b) (s_b a)) as [L|G]; [right; right; split; [lia|exact L]|left; right; split; assumption].
Qed.
Lemma slt_not_sle a b : slt a b -> ~ sle b a.
Proof. unfold slt, sle. intros [H|[H1 H2]] [G|[G1 G2]]; try lia; lra. Qed.
Lemma sle_m a b : sle a b -> (s_m a <= s_m b)%Z.
Proof. unfold sle. intros [H|[H _]]; lia. Qed.

(* ------------------------------------------------------------------ integration over a script *)
(* a well-formed tempo change: positive bpm and metronome, the position's own metronome is that of the change *)
Definition wfc (c : bcs) : Prop := 0 < bs_bpm c /\ 0 < bs_met c /\ s_met (bs_snap c) = bs_met c.

Fixpoint increasing (prev : bcs) (l : list bcs) : Prop :=
  match l with
  | [] => True
  | c :: l' => slt (bs_snap prev) (bs_snap c) /\ increasing c l'
  end.
Fixpoint all_wfc (l : list bcs) : Prop := match l with [] => True | c :: l' => wfc c /\ all_wfc l' end.

Lemma increasing_all_ge prev l c : increasing prev l -> In c l -> slt (bs_snap prev) (bs_snap c).
Proof.
  revert prev. induction l as [|x l IH]; intros prev H Hin; [destruct Hin|]. destruct H as [H1 H2].
  destruct Hin as [<-|Hin]; [exact H1|].
  specialize (IH x H2 Hin). unfold slt in *. destruct H1 as [A|[A1 A2]], IH as [B|[B1 B2]]; try (left; lia). right. split; [lia|lra].
Qed.

(* time_of_go respects Qeq in the accumulated time *)
Lemma time_of_go_comp t t' cur rest s : t == t' -> time_of_go t cur rest s == time_of_go t' cur rest s.
Proof.
  revert t t' cur. induction rest as [|n rest IH]; intros t t' cur E; cbn [time_of_go].
  - rewrite E. reflexivity.
  - destruct (snap_le (bs_snap n) s); [apply IH; rewrite E; reflexivity|rewrite E; reflexivity].
Qed.

(* if the query is before the next change, the walk stops at once *)
Lemma time_of_go_before t cur rest s :
  (forall c, In c rest -> slt s (bs_snap c)) ->
  time_of_go t cur rest s = t + beat_len (bs_bpm cur) * seg_beats (bs_met cur) (bs_snap cur) s.
Proof.
  intros H. destruct rest as [|n rest]; [reflexivity|]. cbn [time_of_go].
  destruct (snap_le (bs_snap n) s) eqn:E; [|reflexivity].
  apply snap_le_iff in E. exfalso. apply (slt_not_sle _ _ (H n (or_introl eq_refl))). exact E.
Qed.

(* ------------------------------------------------------------------ timed scripts: (offset, change) pairs *)
Definition pr := (bco * bcs)%type.
Definition p_t (p : pr) : Q := bo_off (fst p).
Definition p_s (p : pr) : snap := bs_snap (snd p).

(* each stored offset is the previous one plus the integrated segment *)
Fixpoint consistent (p0 : pr) (rest : list pr) : Prop :=
  match rest with
  | [] => True
  | p1 :: rest' =>
      p_t p1 == p_t p0 + beat_len (bs_bpm (snd p0)) * seg_beats (bs_met (snd p0)) (p_s p0) (p_s p1)
      /\ consistent p1 rest'
  end.
Fixpoint incr_pairs (p0 : pr) (rest : list pr) : Prop :=
  match rest with [] => True | p1 :: rest' => slt (p_s p0) (p_s p1) /\ incr_pairs p1 rest' end.

(* the change active at q: walk forward while the next change is at or before q *)
Fixpoint active_fwd (p0 : pr) (rest : list pr) (q : snap) : pr :=
  match rest with
  | [] => p0
  | p1 :: rest' => if snap_le (p_s p1) q then active_fwd p1 rest' q else p0
  end.

Lemma time_of_go_active p0 rest q : consistent p0 rest ->
  time_of_go (p_t p0) (snd p0) (map snd rest) q
  == let a := active_fwd p0 rest q in p_t a + beat_len (bs_bpm (snd a)) * seg_beats (bs_met (snd a)) (p_s a) q.
Proof.
  revert p0. induction rest as [|p1 rest IH]; intros p0 Hc; cbn [map time_of_go active_fwd]; [reflexivity|].
  destruct Hc as [E Hc]. fold (p_s p1). destruct (snap_le (p_s p1) q); [|reflexivity].
  rewrite <- (IH p1 Hc). apply time_of_go_comp. unfold p_s. rewrite E. reflexivity.
Qed.

(* backward scan (the code's reversed sweep, fresh cursor) *)
Lemma skip_app q l1 l2 :
  skip_snap_gt q (l1 ++ l2) = match skip_snap_gt q l1 with Some r => Some (r ++ l2) | None => skip_snap_gt q l2 end.
Proof.
  induction l1 as [|[o s] l1 IH]; cbn [app skip_snap_gt]; [reflexivity|].
  destruct (snap_gt (bs_snap s) q); [exact IH|reflexivity].
Qed.

Lemma skip_all_gt q l : (forall p, In p l -> slt q (p_s p)) -> skip_snap_gt q l = None.
Proof.
  induction l as [|[o s] l IH]; intro H; cbn [skip_snap_gt]; [reflexivity|].
  assert (G: snap_gt (bs_snap s) q = true).
  { rewrite snap_gt_le. apply negb_true_iff. destruct (snap_le (bs_snap s) q) eqn:E; auto.
    apply snap_le_iff in E. exfalso. apply (slt_not_sle _ _ (H (o, s) (or_introl eq_refl))). exact E. }
  rewrite G. apply IH. intros p Hin. apply H. right. exact Hin.
Qed.

Lemma incr_pairs_all p0 rest p : incr_pairs p0 rest -> In p rest -> slt (p_s p0) (p_s p).
Proof.
  revert p0. induction rest as [|x rest IH]; intros p0 H Hin; [destruct Hin|]. destruct H as [H1 H2].
  destruct Hin as [<-|Hin]; [exact H1|]. specialize (IH x H2 Hin).
  unfold slt in *. destruct H1 as [A|[A1 A2]], IH as [B|[B1 B2]]; try (left; lia). right. split; [lia|lra].
Qed.

Lemma slt_trans_le a b c : slt a b -> slt b c -> slt a c.
Proof. unfold slt. intros [A|[A1 A2]] [B|[B1 B2]]; try (left; lia). right. split; [lia|lra]. Qed.
Lemma slt_of_not_le a b : snap_le a b = false -> slt b a.
Proof. intro H. destruct (sle_total a b) as [L|G]; [apply snap_le_iff in L; congruence|exact G]. Qed.

Theorem backward_is_forward p0 rest q : incr_pairs p0 rest -> sle (p_s p0) q ->
  exists tl, skip_snap_gt q (rev (p0 :: rest)) = Some (active_fwd p0 rest q :: tl).
Proof.
  revert p0. induction rest as [|p1 rest IH]; intros p0 Hi Hq.
  - destruct p0 as [o s]. cbn [rev app skip_snap_gt active_fwd]. rewrite snap_gt_le.
    apply snap_le_iff in Hq. unfold p_s in Hq. cbn [snd] in Hq. rewrite Hq. cbn [negb]. eexists; reflexivity.
  - destruct Hi as [H01 Hi]. cbn [active_fwd]. change (rev (p0 :: p1 :: rest)) with (rev (p1 :: rest) ++ [p0]).
    rewrite skip_app. destruct (snap_le (p_s p1) q) eqn:E.
    + apply snap_le_iff in E. destruct (IH p1 Hi E) as [tl Htl]. rewrite Htl. eexists. reflexivity.
    + apply slt_of_not_le in E. rewrite skip_all_gt.
      * destruct p0 as [o s]. cbn [skip_snap_gt]. rewrite snap_gt_le. apply snap_le_iff in Hq. unfold p_s in Hq; cbn [snd] in Hq.
        rewrite Hq. cbn [negb]. eexists; reflexivity.
      * intros p Hin. apply in_rev in Hin. destruct Hin as [<-|Hin]; [exact E|].
        apply (slt_trans_le _ (p_s p1)); [exact E|]. apply (incr_pairs_all p1 rest p Hi Hin).
Qed.

(* ------------------------------------------------------------------ the per-query value *)
Lemma snap_norm_defined m b met : (0 <= m)%Z -> 0 < met -> 0 <= snap_val met m b ->
  exists s, snap_norm m b met = Some s.
Proof.
  intros Hm Hmet Hv. unfold snap_norm, snap_val in *.
  assert (Em: (m <? 0)%Z = false) by (apply Z.ltb_ge; exact Hm). rewrite Em.
  destruct (Qlt_bool b 0 || Qle_bool met b) eqn:Ec; cbn [fst snd].
  - destruct (qfloordiv_mod b met Hmet) as [Ev [Hlo Hhi]].
    assert (E1: Qlt_bool (qmod b met) 0 = false) by (apply Qlt_bool_false; exact Hlo).
    assert (E2: (m + qfloordiv b met <? 0)%Z = false).
    { apply Z.ltb_ge. unfold qfloordiv.
      assert (L: inject_Z (- m) <= b / met).
      { rewrite inject_Z_opp. apply Qle_shift_div_l; [exact Hmet|]. lra. }
      apply Qfloor_resp_le in L. rewrite Qfloor_Z in L. lia. }
    rewrite E1, E2. cbn [orb]. eexists; reflexivity.
  - apply orb_false_iff in Ec. destruct Ec as [Ec1 _]. rewrite Ec1, Em. cbn [orb]. eexists; reflexivity.
Qed.

Lemma offset_at_value o s q :
  wfc s -> s_b (bs_snap s) < bs_met s -> 0 <= s_b q -> sle (bs_snap s) q ->
  exists v, offset_at o s q = Some v
            /\ v == bo_off o + beat_len (bs_bpm s) * seg_beats (bs_met s) (bs_snap s) q.
Proof.
  intros [Hbpm [Hmet Heq]] Hb Hq Hle. unfold offset_at.
  assert (Hm: (s_m (bs_snap s) <= s_m q)%Z) by (apply sle_m; exact Hle).
  assert (Hmet': 0 < s_met (bs_snap s)) by (rewrite Heq; exact Hmet).
  assert (Hval: 0 <= snap_val (s_met (bs_snap s)) (s_m q - s_m (bs_snap s)) (s_b q - s_b (bs_snap s))).
  { unfold snap_val. rewrite Heq. destruct Hle as [L|[L1 L2]].
    - assert (1 <= inject_Z (s_m q - s_m (bs_snap s))) by (change 1 with (inject_Z 1); rewrite <- Zle_Qle; lia).
      assert (inject_Z (s_m q - s_m (bs_snap s)) * bs_met s >= 1 * bs_met s) by (apply Qmult_le_compat_r; lra). lra.
    - rewrite <- L1, Z.sub_diag. change (inject_Z 0) with 0. lra. }
  assert (Hge: (0 <= s_m q - s_m (bs_snap s))%Z) by lia.
  destruct (snap_norm_defined _ _ _ Hge Hmet' Hval) as [d Hd].
  assert (Hnz: ~ bs_bpm s == 0) by (intro E; rewrite E in Hbpm; lra).
  assert (Hsub: snap_sub q (bs_snap s) = Some d) by exact Hd.
  unfold snap_sub. rewrite Hd. eexists. split; [reflexivity|].
  rewrite Qred_correct. rewrite <- Heq.
  rewrite (snap_sub_offset q (bs_snap s) (bs_bpm s) d Hm Hmet' Hnz Hsub). reflexivity.
Qed.

(* ------------------------------------------------------------------ the cursor is harmless *)
Definition lookup_time (full : list pr) (q : snap) : option Q :=
  match skip_snap_gt q full with
  | Some ((o, s) :: _) => offset_at o s q
  | _ => None
  end.

Lemma skip_suffix q cur r : skip_snap_gt q cur = Some r ->
  exists pre, cur = pre ++ r /\ (forall p, In p pre -> slt q (p_s p)).
Proof.
  revert r. induction cur as [|[o s] cur IH]; intros r H; cbn [skip_snap_gt] in H; [discriminate|].
  destruct (snap_gt (bs_snap s) q) eqn:E.
  - destruct (IH r H) as [pre [E1 E2]]. exists ((o, s) :: pre). split; [rewrite E1; reflexivity|].
    intros p [<-|Hin]; [|apply E2; exact Hin]. rewrite snap_gt_le in E. apply negb_true_iff in E.
    apply slt_of_not_le in E. exact E.
  - injection H as <-. exists []. split; [reflexivity|]. intros p [].
Qed.

Lemma skip_with_dropped q pre cur : (forall p, In p pre -> slt q (p_s p)) ->
  skip_snap_gt q (pre ++ cur) = skip_snap_gt q cur.
Proof. intro H. rewrite skip_app, (skip_all_gt q pre H). reflexivity. Qed.

Fixpoint desc (l : list (nat * snap)) : Prop :=
  match l with
  | [] => True
  | (_, q1) :: l' => (forall iq, In iq l' -> sle (snd iq) q1) /\ desc l'
  end.

Lemma sle_slt_trans a b c : sle a b -> slt b c -> slt a c.
Proof. unfold sle, slt. intros [A|[A1 A2]] [B|[B1 B2]]; try (left; lia). right. split; [lia|lra]. Qed.

Theorem sweep_is_lookup full qs : forall pre cur,
  full = pre ++ cur ->
  (forall p iq, In p pre -> In iq qs -> slt (snd iq) (p_s p)) ->
  desc qs ->
  (forall iq, In iq qs -> exists v, lookup_time full (snd iq) = Some v) ->
  exists res, sweep_offsets cur qs = Some res
              /\ Forall2 (fun iq r => fst r = fst iq /\ lookup_time full (snd iq) = Some (snd r)) qs res.
Proof.
  induction qs as [|[i q] qs IH]; intros pre cur Hfull Hpre Hdesc Hdef.
  - exists []. split; [reflexivity|constructor].
  - cbn [sweep_offsets]. destruct Hdesc as [Hq Hdesc].
    destruct (Hdef (i, q) (or_introl eq_refl)) as [v Hv]. cbn [snd] in Hv.
    unfold lookup_time in Hv. rewrite Hfull in Hv.
    rewrite (skip_with_dropped q pre cur) in Hv by (intros p Hp; apply (Hpre p (i, q) Hp (or_introl eq_refl))).
    destruct (skip_snap_gt q cur) as [[|[o s] tl]|] eqn:Es; try discriminate.
    destruct (skip_suffix q cur _ Es) as [pre2 [Ecur Hpre2]].
    rewrite Hv.
    destruct (IH (pre ++ pre2) ((o, s) :: tl)) as [res [R1 R2]].
    + rewrite Hfull, Ecur, app_assoc. reflexivity.
    + intros p iq Hp Hiq. apply in_app_or in Hp. destruct Hp as [Hp|Hp].
      * apply (Hpre p iq Hp). right. exact Hiq.
      * apply (sle_slt_trans _ q); [apply Hq; exact Hiq|apply Hpre2; exact Hp].
    + exact Hdesc.
    + intros iq Hiq. apply Hdef. right. exact Hiq.
    + rewrite R1. eexists. split; [reflexivity|]. constructor; [|exact R2]. cbn [fst snd]. split; [reflexivity|].
      unfold lookup_time. rewrite Hfull, (skip_with_dropped q pre cur), Es by (intros p Hp; apply (Hpre p (i, q) Hp (or_introl eq_refl))).
      exact Hv.
Qed.

(* ------------------------------------------------------------------ sorting the queries and putting results back *)
From Coq Require Import Sorting.Permutation Sorting.Sorted.

Definition Rq (a b : nat * snap) : Prop := sle (snd a) (snd b).

Lemma insert_by_in {A} (lt : A -> A -> bool) x l w : In w (insert_by lt x l) <-> w = x \/ In w l.
Proof.
  induction l as [|y l IH]; cbn [insert_by].
  - cbn. split; [intros [H|[]]; left; auto|intros [H|[]]; left; auto].
  - destruct (negb (lt y x)); cbn [In]; [split; intros [H|H]; auto|].
    rewrite IH. split; [intros [H|[H|H]]; auto|intros [H|[H|H]]; auto].
Qed.

Lemma insert_by_perm {A} (lt : A -> A -> bool) x l : Permutation (x :: l) (insert_by lt x l).
Proof.
  induction l as [|y l IH]; cbn [insert_by]; [apply Permutation_refl|].
  destruct (negb (lt y x)); [apply Permutation_refl|].
  eapply perm_trans; [apply perm_swap|]. apply perm_skip. exact IH.
Qed.

Lemma sort_by_perm {A} (lt : A -> A -> bool) l : Permutation l (sort_by lt l).
Proof.
  unfold sort_by. induction l as [|x l IH]; cbn [fold_right]; [constructor|].
  eapply perm_trans; [apply perm_skip; exact IH|apply insert_by_perm].
Qed.

Lemma idx_lt_false a b : idx_snap_lt a b = false -> Rq b a.
Proof. unfold idx_snap_lt, Rq. intro H. destruct (sle_total (snd b) (snd a)) as [L|G]; [exact L|]. apply snap_lt_iff in G. congruence. Qed.
Lemma idx_lt_true a b : idx_snap_lt a b = true -> Rq a b.
Proof. unfold idx_snap_lt, Rq. intro H. apply snap_lt_iff in H. apply slt_sle. exact H. Qed.

Lemma insert_sorted x l : StronglySorted Rq l -> StronglySorted Rq (insert_by idx_snap_lt x l).
Proof.
  induction l as [|y l IH]; intro Hs; cbn [insert_by]; [repeat constructor|].
  apply StronglySorted_inv in Hs. destruct Hs as [Hs Hy]. rewrite Forall_forall in Hy.
  destruct (idx_snap_lt y x) eqn:E; cbn [negb].
  - constructor; [apply IH; exact Hs|]. rewrite Forall_forall. intros w Hw. apply insert_by_in in Hw.
    destruct Hw as [->|Hw]; [apply idx_lt_true; exact E|apply Hy; exact Hw].
  - apply idx_lt_false in E. constructor; [constructor; [exact Hs|rewrite Forall_forall; exact Hy]|].
    rewrite Forall_forall. intros w [<-|Hw]; [exact E|]. unfold Rq in *. eapply sle_trans; [exact E|apply Hy; exact Hw].
Qed.

Lemma sort_sorted l : StronglySorted Rq (sort_by idx_snap_lt l).
Proof. unfold sort_by. induction l as [|x l IH]; cbn [fold_right]; [constructor|apply insert_sorted; exact IH]. Qed.

Lemma desc_app l x : desc l -> (forall iq, In iq l -> sle (snd x) (snd iq)) -> desc (l ++ [x]).
Proof.
  induction l as [|[i q] l IH]; intros Hd Hx; cbn [app desc].
  - destruct x. cbn. split; [intros iq []|exact I].
  - destruct Hd as [H1 H2]. split.
    + intros iq Hin. apply in_app_or in Hin. destruct Hin as [Hin|[<-|[]]]; [apply H1; exact Hin|].
      apply (Hx (i, q)). left. reflexivity.
    + apply IH; [exact H2|]. intros iq Hin. apply Hx. right. exact Hin.
Qed.

Lemma sorted_rev_desc l : StronglySorted Rq l -> desc (rev l).
Proof.
  induction l as [|x l IH]; intro Hs; [exact I|]. apply StronglySorted_inv in Hs. destruct Hs as [Hs Hx].
  cbn [rev]. apply desc_app; [apply IH; exact Hs|]. rewrite Forall_forall in Hx.
  intros iq Hin. apply in_rev in Hin. apply Hx. exact Hin.
Qed.

Local Open Scope nat_scope.
Lemma assoc_nodup {A} i (v : A) res : NoDup (map fst res) -> In (i, v) res -> assoc_nat i res = Some v.
Proof.
  induction res as [|[j w] res IH]; intros Hnd Hin; [destruct Hin|]. cbn [assoc_nat].
  cbn [map fst] in Hnd. apply NoDup_cons_iff in Hnd. destruct Hnd as [Hj Hnd].
  destruct Hin as [E|Hin].
  - injection E as <- <-. rewrite Nat.eqb_refl. reflexivity.
  - destruct (Nat.eqb i j) eqn:E; [|apply IH; assumption].
    apply Nat.eqb_eq in E. subst j. exfalso. apply Hj. change i with (fst (i, v)). apply in_map. exact Hin.
Qed.

Lemma all_some_map {A B} (f : A -> option B) l :
  (forall a, In a l -> exists b, f a = Some b) ->
  exists r, all_some (map f l) = Some r /\ Forall2 (fun a b => f a = Some b) l r.
Proof.
  induction l as [|a l IH]; intro H; [exists []; split; [reflexivity|constructor]|].
  destruct (H a (or_introl eq_refl)) as [b Hb]. destruct IH as [r [R1 R2]]; [intros x Hx; apply H; right; exact Hx|].
  exists (b :: r). cbn [map all_some]. rewrite Hb, R1. split; [reflexivity|constructor; assumption].
Qed.

Lemma combine_seq_in {A} (l : list A) a i q : In (i, q) (combine (seq a (length l)) l) <-> (a <= i /\ nth_error l (i - a) = Some q).
Proof.
  revert a. induction l as [|x l IH]; intros a; cbn [length seq combine].
  - split; [intros []|intros [_ H]; destruct (i - a); discriminate].
  - cbn [In]. rewrite IH. split.
    + intros [E|[H1 H2]]; [injection E as <- <-; split; [lia|rewrite Nat.sub_diag; reflexivity]|].
      split; [lia|]. replace (i - a) with (S (i - S a)) by lia. exact H2.
    + intros [H1 H2]. destruct (Nat.eq_dec i a) as [->|Hne].
      * left. rewrite Nat.sub_diag in H2. cbn in H2. injection H2 as <-. reflexivity.
      * right. split; [lia|]. replace (i - a) with (S (i - S a)) in H2 by lia. exact H2.
Qed.

Lemma map_seq_nth {A B} (f : A -> B) (g : nat -> B) l :
  (forall i q, nth_error l i = Some q -> g i = f q) -> map g (seq 0 (length l)) = map f l.
Proof.
  intro H. assert (G: forall a, (forall i q, nth_error l i = Some q -> g (a + i) = f q) -> map g (seq a (length l)) = map f l).
  { clear H. induction l as [|x l IH]; intros a H; [reflexivity|]. cbn [length seq map]. f_equal.
    - rewrite <- (Nat.add_0_r a). apply (H 0 x). reflexivity.
    - apply IH. intros i q Hi. replace (S a + i) with (a + S i) by lia. apply (H (S i) q). exact Hi. }
  apply (G 0). exact H.
Qed.

Lemma forall2_in_l {A B} (R : A -> B -> Prop) l r a : Forall2 R l r -> In a l -> exists b, In b r /\ R a b.
Proof.
  induction 1 as [|x y l r Hxy _ IH]; intro Hin; [destruct Hin|].
  destruct Hin as [<-|Hin]; [exists y; split; [left; reflexivity|exact Hxy]|].
  destruct (IH Hin) as [b [B1 B2]]. exists b. split; [right; exact B1|exact B2].
Qed.
Lemma forall2_map_fst {A} (P : nat * snap -> nat * A -> Prop) l r :
  Forall2 (fun iq x => fst x = fst iq /\ P iq x) l r -> map fst r = map fst l.
Proof. induction 1 as [|a b l r [H _] _ IH]; cbn [map]; [reflexivity|]. rewrite H, IH. reflexivity. Qed.
Local Open Scope Q_scope.

Lemma map_fst_combine {A B} (a : list A) (b : list B) : length a = length b -> map fst (combine a b) = a.
Proof. revert b. induction a as [|x a IH]; intros b H; destruct b; try discriminate; cbn; [reflexivity|]. f_equal. apply IH. cbn in H. lia. Qed.

(* TimingMap.offsets = per-query lookup, in the order of the queries (sorting, reverse sweep with a cursor,
   un-permutation) *)
Theorem tm_offsets_lookup tbl bcos qs bcss :
  bco_to_bcs tbl (sort_by bco_lt bcos) = Some bcss ->
  let full := rev (combine (sort_by bco_lt bcos) bcss) in
  (forall q, In q qs -> exists v, lookup_time full q = Some v) ->
  exists res, tm_offsets tbl bcos qs = Some res /\ Forall2 (fun q r => lookup_time full q = Some r) qs res.
Proof.
  intros Hb full Hdef. unfold tm_offsets. rewrite Hb. fold full.
  set (n := length qs). set (idx := combine (seq 0 n) qs). set (sorted := sort_by idx_snap_lt idx).
  assert (Hperm: Permutation idx (rev sorted)).
  { eapply perm_trans; [apply (sort_by_perm idx_snap_lt idx)|apply Permutation_rev]. }
  assert (Hin_idx: forall iq, In iq (rev sorted) -> In (snd iq) qs).
  { intros [i q] Hin. apply (Permutation_in _ (Permutation_sym Hperm)) in Hin. unfold idx in Hin.
    apply in_combine_r in Hin. exact Hin. }
  destruct (sweep_is_lookup full (rev sorted) [] full eq_refl) as [res0 [S1 S2]].
  - intros p iq [].
  - apply sorted_rev_desc. apply sort_sorted.
  - intros iq Hin. apply Hdef. apply Hin_idx. exact Hin.
  - rewrite S1. unfold unpermute.
    assert (Hnd: NoDup (map fst res0)).
    { rewrite (forall2_map_fst _ _ _ S2).
      apply (Permutation_NoDup (l := map fst idx)); [apply Permutation_map; exact Hperm|].
      unfold idx. rewrite map_fst_combine by (rewrite seq_length; reflexivity). apply seq_NoDup. }
    assert (Hmap: map (fun i => assoc_nat i res0) (seq 0 n) = map (lookup_time full) qs).
    { apply map_seq_nth. intros i q Hi.
      assert (Hin: In (i, q) (rev sorted)).
      { apply (Permutation_in _ Hperm). unfold idx, n. apply combine_seq_in. split; [lia|]. rewrite Nat.sub_0_r. exact Hi. }
      destruct (forall2_in_l _ _ _ _ S2 Hin) as [[j v] [Hr [Hj Hv]]]. cbn [fst snd] in Hj, Hv. subst j.
      rewrite (assoc_nodup i v res0 Hnd Hr). symmetry. exact Hv. }
    rewrite Hmap. apply all_some_map. exact Hdef.
Qed.

(* ------------------------------------------------------------------ lookup = integration *)
Lemma active_fwd_props p0 rest q : sle (p_s p0) q ->
  In (active_fwd p0 rest q) (p0 :: rest) /\ sle (p_s (active_fwd p0 rest q)) q.
Proof.
  revert p0. induction rest as [|p1 rest IH]; intros p0 H; cbn [active_fwd]; [split; [left; reflexivity|exact H]|].
  destruct (snap_le (p_s p1) q) eqn:E; [|split; [left; reflexivity|exact H]].
  apply snap_le_iff in E. destruct (IH p1 E) as [I1 I2]. split; [right; exact I1|exact I2].
Qed.

(* every change of the map is well-formed and its position normalised (beat below its metronome) *)
Definition pairs_wf (l : list pr) : Prop :=
  forall p, In p l -> wfc (snd p) /\ s_b (p_s p) < bs_met (snd p).

Theorem lookup_is_integral p0 rest q :
  incr_pairs p0 rest -> consistent p0 rest -> pairs_wf (p0 :: rest) ->
  sle (p_s p0) q -> 0 <= s_b q ->
  exists v, lookup_time (rev (p0 :: rest)) q = Some v
            /\ v == time_of (p_t p0) (map snd (p0 :: rest)) q.
Proof.
  intros Hi Hc Hw Hq Hb. destruct (backward_is_forward p0 rest q Hi Hq) as [tl Htl].
  destruct (active_fwd_props p0 rest q Hq) as [Hin Hle].
  unfold lookup_time. rewrite Htl. destruct (active_fwd p0 rest q) as [o s] eqn:Ea.
  destruct (Hw (o, s) Hin) as [W1 W2]. cbn [snd] in W1, W2. unfold p_s in W2, Hle. cbn [snd] in W2, Hle.
  destruct (offset_at_value o s q W1 W2 Hb Hle) as [v [V1 V2]].
  exists v. split; [exact V1|]. rewrite V2. cbn [map time_of].
  rewrite (time_of_go_active p0 rest q Hc). cbv zeta. rewrite Ea. unfold p_t, p_s. cbn [fst snd]. reflexivity.
Qed.

(* MAIN: for a timing map whose re-derived positions are increasing, normalised and integrate back to its stored
   offsets, TimingMap.offsets(queries) succeeds and returns, IN THE ORDER OF THE QUERIES, the piecewise-linear
   integration of beat length over the tempo segments (queries in any order, with duplicates, at or after the
   first change). *)
Lemma forall2_impl_in {A B} (P Q : A -> B -> Prop) l r :
  Forall2 P l r -> (forall a b, In a l -> P a b -> Q a b) -> Forall2 Q l r.
Proof.
  induction 1 as [|a b l r Hab _ IH]; intro H; [constructor|]. constructor.
  - apply H; [left; reflexivity|exact Hab].
  - apply IH. intros a' b' Hin. apply H. right. exact Hin.
Qed.

Theorem offsets_integrate tbl bcos qs bcss p0 rest :
  bco_to_bcs tbl (sort_by bco_lt bcos) = Some bcss ->
  combine (sort_by bco_lt bcos) bcss = p0 :: rest ->
  incr_pairs p0 rest -> consistent p0 rest -> pairs_wf (p0 :: rest) ->
  (forall q, In q qs -> sle (p_s p0) q /\ 0 <= s_b q) ->
  exists res, tm_offsets tbl bcos qs = Some res
              /\ Forall2 (fun q r => r == time_of (p_t p0) (map snd (p0 :: rest)) q) qs res.
Proof.
  intros Hb Hp Hi Hc Hw Hq.
  destruct (tm_offsets_lookup tbl bcos qs bcss Hb) as [res [R1 R2]].
  - intros q Hin. rewrite Hp. destruct (Hq q Hin) as [Q1 Q2].
    destruct (lookup_is_integral p0 rest q Hi Hc Hw Q1 Q2) as [v [V1 _]]. exists v. exact V1.
  - exists res. split; [exact R1|]. cbv zeta in R2.
    apply (forall2_impl_in _ _ _ _ R2). intros q r Hin Hqr.
    destruct (Hq q Hin) as [Q1 Q2].
    destruct (lookup_is_integral p0 rest q Hi Hc Hw Q1 Q2) as [v [V1 V2]].
    assert (E: Some r = Some v) by (rewrite <- Hqr, <- V1, Hp; reflexivity).
    injection E as ->. exact V2.
Qed.

(* ------------------------------------------------------------------ boolean forms of the hypotheses (used by the runner) *)
Fixpoint incr_pairsb (p0 : pr) (rest : list pr) : bool :=
  match rest with [] => true | p1 :: rest' => snap_lt (p_s p0) (p_s p1) && incr_pairsb p1 rest' end.
Fixpoint consistentb (p0 : pr) (rest : list pr) : bool :=
  match rest with
  | [] => true
  | p1 :: rest' =>
      Qeq_bool (p_t p1) (p_t p0 + beat_len (bs_bpm (snd p0)) * seg_beats (bs_met (snd p0)) (p_s p0) (p_s p1))
      && consistentb p1 rest'
  end.
Definition pairs_wfb (l : list pr) : bool :=
  forallb (fun p => wfcb (snd p) && Qlt_bool (s_b (p_s p)) (bs_met (snd p))) l.

Lemma wfcb_sound c : wfcb c = true -> wfc c.
Proof.
  unfold wfcb, wfc. intro H. repeat (apply andb_true_iff in H; destruct H as [H ?]).
  apply Qlt_bool_iff in H. apply Qlt_bool_iff in H2. apply Z.eqb_eq in H1. apply Pos.eqb_eq in H0.
  repeat split; auto. destruct (s_met (bs_snap c)), (bs_met c). cbn in *. subst. reflexivity.
Qed.
Lemma incr_pairsb_sound p0 rest : incr_pairsb p0 rest = true -> incr_pairs p0 rest.
Proof.
  revert p0. induction rest as [|p1 rest IH]; intros p0 H; cbn in *; auto.
  apply andb_true_iff in H. destruct H as [H1 H2]. split; [apply snap_lt_iff; exact H1|apply IH; exact H2].
Qed.
Lemma consistentb_sound p0 rest : consistentb p0 rest = true -> consistent p0 rest.
Proof.
  revert p0. induction rest as [|p1 rest IH]; intros p0 H; cbn [consistentb consistent] in *; auto.
  apply andb_true_iff in H. destruct H as [H1 H2]. split; [apply Qeq_bool_iff; exact H1|apply IH; exact H2].
Qed.
Lemma pairs_wfb_sound l : pairs_wfb l = true -> pairs_wf l.
Proof.
  unfold pairs_wfb, pairs_wf. rewrite forallb_forall. intros H p Hin. specialize (H p Hin).
  apply andb_true_iff in H. destruct H as [H1 H2]. split; [apply wfcb_sound; exact H1|apply Qlt_bool_iff; exact H2].
Qed.

Definition query_okb (p0 : pr) (q : snap) : bool := snap_le (p_s p0) q && Qle_bool 0 (s_b q).

(* the checkable form of the main theorem *)
Theorem offsets_integrate_b tbl bcos qs bcss p0 rest :
  bco_to_bcs tbl (sort_by bco_lt bcos) = Some bcss ->
  combine (sort_by bco_lt bcos) bcss = p0 :: rest ->
  incr_pairsb p0 rest && consistentb p0 rest && pairs_wfb (p0 :: rest) && forallb (query_okb p0) qs = true ->
  exists res, tm_offsets tbl bcos qs = Some res
              /\ Forall2 (fun q r => r == time_of (p_t p0) (map snd (p0 :: rest)) q) qs res.
Proof.
  intros Hb Hp H. repeat (apply andb_true_iff in H; destruct H as [H ?]).
  apply (offsets_integrate tbl bcos qs bcss p0 rest Hb Hp).
  - apply incr_pairsb_sound. exact H.
  - apply consistentb_sound. exact H2.
  - apply pairs_wfb_sound. exact H1.
  - intros q Hin. rewrite forallb_forall in H0. specialize (H0 q Hin). unfold query_okb in H0.
    apply andb_true_iff in H0. destruct H0 as [A B]. split; [apply snap_le_iff; exact A|apply Qle_bool_iff; exact B].
Qed.
