(* C03 o C02, witnesses (texts written by SMMapSet.write on /repo HEAD, read back by SMMapSet.read; the model agrees
   with both on each):
   - a title containing ';' is outside c03_domb (tame_str): the writer prints it verbatim, the written text is outside
     the reader's domain and the reader returns the title cut at the ';' ("a;b" comes back as "a"; the same happens
     with ':', and blanks around a title are dropped) - the charts come back unchanged;
   - a tempo change at beat 1/5 (on the Snapper table, off the 1/48 grid): in c03_domb, outside readback_guard, the
     written text is outside c02_domb - and yet the read returns the notes written: the guard is what the READING
     theorem C02 covers, not a loss of the implementation. *)
From Coq Require Import String ZArith QArith List Bool.
From RV Require Import Base.PyNum Formats.SMText Formats.SM Formats.SMSpec Formats.SMReadDom Formats.SMWriteDom
  Proofs.SMProofs Proofs.SMWriteWholeFile Proofs.SMWriteWholeEx Proofs.SMWriteReadDom.
Import ListNotations.
Open Scope Z_scope.

Definition rb_semi_chart : smchart :=
  mkChart (tx "dance-single") (tx "") (tx "Easy") 1 [0%Q] [(0%Q, 120%Q, 4%Q)] [(0%Q, 0); (500%Q, 1)] [] [] [] [] [] [].
Definition rb_semi_set : smset :=
  mkSet [tx "a;b"; []; []; []; []; []; []; []; []; []; []; []; []; []; []; []] (Some 0%Q) 0%Q 10%Q true [rb_semi_chart].
Definition rb_semi_txt : text := [35; 84; 73; 84; 76; 69; 58; 97; 59; 98; 59; 10; 35; 83; 85; 66; 84; 73; 84; 76; 69; 58; 59; 10; 35; 65; 82; 84; 73; 83; 84; 58; 59; 10; 35; 84; 73; 84; 76; 69; 84; 82; 65; 78; 83; 76; 73; 84; 58; 59; 10; 35; 83; 85; 66; 84; 73; 84; 76; 69; 84; 82; 65; 78; 83; 76; 73; 84; 58; 59; 10; 35; 65; 82; 84; 73; 83; 84; 84; 82; 65; 78; 83; 76; 73; 84; 58; 59; 10; 35; 71; 69; 78; 82; 69; 58; 59; 10; 35; 67; 82; 69; 68; 73; 84; 58; 59; 10; 35; 66; 65; 78; 78; 69; 82; 58; 59; 10; 35; 66; 65; 67; 75; 71; 82; 79; 85; 78; 68; 58; 59; 10; 35; 76; 89; 82; 73; 67; 83; 80; 65; 84; 72; 58; 59; 10; 35; 67; 68; 84; 73; 84; 76; 69; 58; 59; 10; 35; 77; 85; 83; 73; 67; 58; 59; 10; 35; 79; 70; 70; 83; 69; 84; 58; 45; 48; 46; 48; 59; 10; 35; 66; 80; 77; 83; 58; 48; 46; 48; 61; 49; 50; 48; 46; 48; 59; 10; 35; 83; 84; 79; 80; 83; 58; 59; 10; 35; 83; 65; 77; 80; 76; 69; 83; 84; 65; 82; 84; 58; 48; 46; 48; 59; 10; 35; 83; 65; 77; 80; 76; 69; 76; 69; 78; 71; 84; 72; 58; 48; 46; 48; 49; 59; 10; 35; 68; 73; 83; 80; 76; 65; 89; 66; 80; 77; 58; 59; 10; 35; 83; 69; 76; 69; 67; 84; 65; 66; 76; 69; 58; 89; 69; 83; 59; 10; 35; 66; 71; 67; 72; 65; 78; 71; 69; 83; 58; 59; 10; 35; 70; 71; 67; 72; 65; 78; 71; 69; 83; 58; 59; 10; 47; 47; 45; 45; 45; 45; 45; 45; 100; 97; 110; 99; 101; 45; 115; 105; 110; 103; 108; 101; 91; 49; 32; 69; 97; 115; 121; 93; 45; 45; 45; 45; 45; 45; 10; 35; 78; 79; 84; 69; 83; 58; 10; 32; 32; 32; 32; 32; 100; 97; 110; 99; 101; 45; 115; 105; 110; 103; 108; 101; 58; 10; 32; 32; 32; 32; 32; 58; 10; 32; 32; 32; 32; 32; 69; 97; 115; 121; 58; 10; 32; 32; 32; 32; 32; 49; 58; 10; 32; 32; 32; 32; 32; 48; 46; 48; 58; 10; 49; 48; 48; 48; 10; 48; 49; 48; 48; 10; 48; 48; 48; 48; 10; 48; 48; 48; 48; 10; 59; 10; 10].

Theorem read_back_refuted_semicolon_title :
  c03_domb rb_semi_set = false /\ readback_guard rb_semi_set = true
  /\ match sm_write live_conf current rb_semi_set with Some toks => match_toks 0 toks rb_semi_txt | None => false end = true
  /\ c02_domb rb_semi_txt = false
  /\ exists s', sm_read live_conf current rb_semi_txt = Some s'
       /\ nth 0 (s_txt rb_semi_set) [] = tx "a;b" /\ nth 0 (s_txt s') [] = tx "a"
       /\ map c_hits (s_maps s') = map c_hits (s_maps rb_semi_set).
Proof.
  split; [vm_compute; reflexivity|]. split; [vm_compute; reflexivity|]. split; [vm_compute; reflexivity|]. split; [vm_compute; reflexivity|].
  destruct (sm_read live_conf current rb_semi_txt) as [s'|] eqn:E; [|vm_compute in E; discriminate].
  exists s'. split; [reflexivity|]. vm_compute in E. inversion E; subst s'. repeat split; reflexivity.
Qed.

Definition rb_fifth_chart : smchart :=
  mkChart (tx "dance-single") (tx "") (tx "Easy") 1 [0%Q] [(0%Q, 120%Q, 4%Q); (100%Q, 240%Q, 4%Q)] [(0%Q, 0); (350%Q, 1)] [] [] [] [] [] [].
Definition rb_fifth_set : smset :=
  mkSet [tx "w"; []; []; []; []; []; []; []; []; []; []; []; []; []; []; []] (Some 0%Q) 0%Q 10%Q true [rb_fifth_chart].
Definition rb_fifth_txt : text := [35; 84; 73; 84; 76; 69; 58; 119; 59; 10; 35; 83; 85; 66; 84; 73; 84; 76; 69; 58; 59; 10; 35; 65; 82; 84; 73; 83; 84; 58; 59; 10; 35; 84; 73; 84; 76; 69; 84; 82; 65; 78; 83; 76; 73; 84; 58; 59; 10; 35; 83; 85; 66; 84; 73; 84; 76; 69; 84; 82; 65; 78; 83; 76; 73; 84; 58; 59; 10; 35; 65; 82; 84; 73; 83; 84; 84; 82; 65; 78; 83; 76; 73; 84; 58; 59; 10; 35; 71; 69; 78; 82; 69; 58; 59; 10; 35; 67; 82; 69; 68; 73; 84; 58; 59; 10; 35; 66; 65; 78; 78; 69; 82; 58; 59; 10; 35; 66; 65; 67; 75; 71; 82; 79; 85; 78; 68; 58; 59; 10; 35; 76; 89; 82; 73; 67; 83; 80; 65; 84; 72; 58; 59; 10; 35; 67; 68; 84; 73; 84; 76; 69; 58; 59; 10; 35; 77; 85; 83; 73; 67; 58; 59; 10; 35; 79; 70; 70; 83; 69; 84; 58; 45; 48; 46; 48; 59; 10; 35; 66; 80; 77; 83; 58; 48; 46; 48; 61; 49; 50; 48; 46; 48; 44; 10; 48; 46; 50; 61; 50; 52; 48; 46; 48; 59; 10; 35; 83; 84; 79; 80; 83; 58; 59; 10; 35; 83; 65; 77; 80; 76; 69; 83; 84; 65; 82; 84; 58; 48; 46; 48; 59; 10; 35; 83; 65; 77; 80; 76; 69; 76; 69; 78; 71; 84; 72; 58; 48; 46; 48; 49; 59; 10; 35; 68; 73; 83; 80; 76; 65; 89; 66; 80; 77; 58; 59; 10; 35; 83; 69; 76; 69; 67; 84; 65; 66; 76; 69; 58; 89; 69; 83; 59; 10; 35; 66; 71; 67; 72; 65; 78; 71; 69; 83; 58; 59; 10; 35; 70; 71; 67; 72; 65; 78; 71; 69; 83; 58; 59; 10; 47; 47; 45; 45; 45; 45; 45; 45; 100; 97; 110; 99; 101; 45; 115; 105; 110; 103; 108; 101; 91; 49; 32; 69; 97; 115; 121; 93; 45; 45; 45; 45; 45; 45; 10; 35; 78; 79; 84; 69; 83; 58; 10; 32; 32; 32; 32; 32; 100; 97; 110; 99; 101; 45; 115; 105; 110; 103; 108; 101; 58; 10; 32; 32; 32; 32; 32; 58; 10; 32; 32; 32; 32; 32; 69; 97; 115; 121; 58; 10; 32; 32; 32; 32; 32; 49; 58; 10; 32; 32; 32; 32; 32; 48; 46; 48; 58; 10; 49; 48; 48; 48; 10; 48; 48; 48; 48; 10; 48; 48; 48; 48; 10; 48; 48; 48; 48; 10; 48; 48; 48; 48; 10; 48; 48; 48; 48; 10; 48; 49; 48; 48; 10; 48; 48; 48; 48; 10; 48; 48; 48; 48; 10; 48; 48; 48; 48; 10; 48; 48; 48; 48; 10; 48; 48; 48; 48; 10; 48; 48; 48; 48; 10; 48; 48; 48; 48; 10; 48; 48; 48; 48; 10; 48; 48; 48; 48; 10; 48; 48; 48; 48; 10; 48; 48; 48; 48; 10; 48; 48; 48; 48; 10; 48; 48; 48; 48; 10; 59; 10; 10].

Example read_back_guard_not_necessary :
  c03_domb rb_fifth_set = true /\ readback_guard rb_fifth_set = false
  /\ match sm_write live_conf current rb_fifth_set with Some toks => match_toks 0 toks rb_fifth_txt | None => false end = true
  /\ c02_domb rb_fifth_txt = false
  /\ exists s', sm_read live_conf current rb_fifth_txt = Some s' /\ map c_hits (s_maps s') = map c_hits (s_maps rb_fifth_set).
Proof.
  split; [vm_compute; reflexivity|]. split; [vm_compute; reflexivity|]. split; [vm_compute; reflexivity|]. split; [vm_compute; reflexivity|].
  destruct (sm_read live_conf current rb_fifth_txt) as [s'|] eqn:E; [|vm_compute in E; discriminate].
  exists s'. split; [reflexivity|]. vm_compute in E. inversion E; subst s'. reflexivity.
Qed.

(* the guard holds on the example mapsets of the exact domain (tempo changes at beats 0 and 2.5) *)
Example read_back_guard_examples : readback_guard c03_ex_set = true /\ c03_domb c03_ex_set = true.
Proof. vm_compute. split; reflexivity. Qed.
