(* C03 whole-file writer theorem, part 5: one chart.  In the exact domain (Formats/SMWriteDom.v) the writer places every
   event in the cell of its beat, the note data is written, and the reference semantics reads from it exactly the
   chart's objects: per kind a permutation, with times and lengths equal as numbers. *)
From Coq Require Import String ZArith QArith Qround Qabs List Bool Lia Lqa Sorting.Sorted Sorting.Permutation.
From RV Require Import Base.PyNum Timing.Snapper Timing.Snap Timing.TimingMap Timing.Reseat Timing.Integrate
  Timing.Domain Timing.Domain2 Formats.SMText Formats.SM Formats.SMSpec Formats.SMWriteDom
  Proofs.SnapperProofs Proofs.TimingProofs Proofs.RederiveProofs Proofs.TimingProofs2
  Proofs.SMProofs Proofs.SMWriteProofs Proofs.SMWriteWholeRun Proofs.SMWriteWholeText Proofs.SMWriteWholeTime Proofs.SMWriteWholeGrid.
Import ListNotations.
Open Scope Q_scope.

(* ---------------------------------------------------------------- the per-measure row count in the exact regime *)
Section Exact.
  Variable cf : smconf.
  Hypothesis Hmet : k_metronome cf = 4%Z.
  Hypothesis Hcap : (0 < k_max_snap cf)%Z.
  Let cap := k_max_snap cf.

  Lemma fold_lcm_ge r : forall d, (0 < d)%Z -> Forall (fun y => 0 < y)%Z r -> (d <= fold_left Z.lcm r d)%Z.
  Proof.
    induction r as [|y r IH]; intros d Hd Hr; cbn [fold_left]; [lia|]. apply Forall_cons_iff in Hr. destruct Hr as [Hy Hr].
    pose proof (lcm_ge cf d y Hd Hy). pose proof (lcm_pos cf d y Hd Hy). specialize (IH (Z.lcm d y) ltac:(lia) Hr). lia.
  Qed.
  (* the <= version of fold_below_cap: when the true lcm fits the cap the capped fold is the true lcm *)
  Lemma fold_cap_exact r : forall d, (0 < d)%Z -> Forall (fun y => 0 < y)%Z r -> (fold_left Z.lcm r d <= cap)%Z ->
    fold_left (lcm_and_cap cf) r d = fold_left Z.lcm r d.
  Proof.
    induction r as [|y r IH]; intros d Hd Hr Hle; cbn [fold_left] in *; [reflexivity|]. apply Forall_cons_iff in Hr. destruct Hr as [Hy Hr].
    pose proof (lcm_pos cf d y Hd Hy) as Hp. pose proof (fold_lcm_ge r (Z.lcm d y) Hp Hr) as Hg.
    unfold lcm_and_cap at 2. fold cap. rewrite Z.min_l by lia. apply IH; assumption.
  Qed.
  Theorem den_max_exact dens x : Forall (fun y => 0 < y)%Z dens -> In x dens -> (true_lcm dens <= cap)%Z ->
    den_max_of cf dens = true_lcm dens /\ (x | den_max_of cf dens)%Z.
  Proof.
    intros Hp Hx Hle. destruct dens as [|d r]; [destruct Hx|]. apply Forall_cons_iff in Hp. destruct Hp as [Hd Hr].
    unfold true_lcm in *. cbn [fold_left] in *. rewrite Z.lcm_1_l, Z.abs_eq in * by lia.
    unfold den_max_of. fold cap. rewrite (fold_cap_exact r d Hd Hr Hle), Z.min_l by lia. split; [reflexivity|].
    apply fold_lcm_divides. exact Hx.
  Qed.

  (* a beat in lowest terms is written in the row whose beat is that beat, literally *)
  Lemma place_wbeat_exact b col ch dm : Qred b = b -> (p_den (place cf b col ch) | dm)%Z -> (0 < dm)%Z ->
    wbeat (p_measure (place cf b col ch)) dm (p_num (place cf b col ch) * dm / p_den (place cf b col ch)) = b.
  Proof.
    intros Hb Hdiv Hdm. destruct (place_position cf b col ch Hmet) as [Hden [Hnum [Hpos _]]].
    set (p := place cf b col ch) in *. unfold wbeat. transitivity (Qred b); [|exact Hb]. apply Qred_complete.
    pose proof (row_position_exact (p_num p) (p_den p) dm Hden Hdm Hdiv) as E.
    pose proof (inj_pos dm Hdm) as Hdm'.
    setoid_replace (inject_Z (4 * (p_num p * dm / p_den p)) / inject_Z dm) with (4 * (inject_Z (p_num p * dm / p_den p) / inject_Z dm)).
    - rewrite E, Hpos, inject_Z_mult. change (inject_Z 4) with 4. field.
    - rewrite inject_Z_mult. change (inject_Z 4) with 4. field. lra.
  Qed.
End Exact.

(* ---------------------------------------------------------------- list helpers *)
Lemma forall2_eq_map {A B} (f : A -> B) l r : Forall2 (fun a b => b = f a) l r -> r = map f l.
Proof. induction 1; cbn; congruence. Qed.
Lemma filter_map_comm {A B} (f : A -> B) (q : B -> bool) l : filter q (map f l) = map f (filter (fun x => q (f x)) l).
Proof. induction l as [|a l IH]; cbn [map filter]; [reflexivity|]. destruct (q (f a)); cbn [map]; rewrite IH; reflexivity. Qed.
Lemma FOP_filter {A} (R : A -> A -> Prop) (q : A -> bool) l : ForallOrdPairs R l -> ForallOrdPairs R (filter q l).
Proof.
  induction 1 as [|a l Ha Hl IH]; cbn [filter]; [constructor|]. destruct (q a); [|exact IH]. constructor; [|exact IH].
  apply Forall_forall. intros x Hx. apply filter_In in Hx. rewrite Forall_forall in Ha. apply Ha. apply Hx.
Qed.
Lemma FOP_nodup {X K} (key : X -> K) (same : X -> X -> Prop) l :
  ForallOrdPairs (fun x y => ~ same x y) l -> (forall x y, In x l -> In y l -> key x = key y -> same x y) -> NoDup (map key l).
Proof.
  induction 1 as [|a l Ha Hl IH]; intro H; cbn [map]; constructor.
  - intro Hin. apply in_map_iff in Hin. destruct Hin as [y [Ey Hy]]. rewrite Forall_forall in Ha. apply (Ha y Hy).
    apply H; [left; reflexivity|right; exact Hy|symmetry; exact Ey].
  - apply IH. intros x y Hx Hy. apply H; right; assumption.
Qed.
Definition same_bc (x y : Q * Z) : Prop := fst x == fst y /\ snd x = snd y.
Lemma distinct_bc_FOP l : distinct_bc l = true -> ForallOrdPairs (fun x y => ~ same_bc x y) l.
Proof.
  induction l as [|x l IH]; intro H; cbn [distinct_bc] in H; [constructor|]. apply andb_true_iff in H. destruct H as [H1 H2].
  constructor; [|apply IH; exact H2]. apply Forall_forall. intros y Hy [E1 E2]. apply negb_true_iff in H1.
  assert (existsb (fun y : Q * Z => Qeq_bool (fst x) (fst y) && (snd x =? snd y)%Z) l = true); [|congruence].
  apply existsb_exists. exists y. split; [exact Hy|]. apply andb_true_iff. split; [apply Qeq_bool_iff; exact E1|apply Z.eqb_eq; exact E2].
Qed.
Lemma FOP_map {A B} (f : A -> B) (R : B -> B -> Prop) l : ForallOrdPairs R (map f l) <-> ForallOrdPairs (fun x y => R (f x) (f y)) l.
Proof.
  induction l as [|a l IH]; cbn [map]; split; intro H; try constructor; inversion H as [|? ? Ha Hl]; subst.
  - apply Forall_forall. intros x Hx. rewrite Forall_forall in Ha. apply Ha. apply in_map. exact Hx.
  - apply IH. exact Hl.
  - apply Forall_forall. intros y Hy. apply in_map_iff in Hy. destruct Hy as [x [<- Hx]]. rewrite Forall_forall in Ha. apply Ha. exact Hx.
  - apply IH. exact Hl.
Qed.
Lemma FOP_app_l {A} (R : A -> A -> Prop) l1 l2 : ForallOrdPairs R (l1 ++ l2) -> ForallOrdPairs R l1.
Proof.
  induction l1 as [|a l1 IH]; intro H; [constructor|]. cbn [app] in H. inversion H as [|? ? Ha Hl]; subst. constructor; [|apply IH; exact Hl].
  apply Forall_app in Ha. apply Ha.
Qed.
Lemma FOP_app_r {A} (R : A -> A -> Prop) l1 l2 : ForallOrdPairs R (l1 ++ l2) -> ForallOrdPairs R l2.
Proof. induction l1 as [|a l1 IH]; intro H; [exact H|]. cbn [app] in H. inversion H; subst. apply IH. assumption. Qed.
Lemma FOP_app_intro {A} (R : A -> A -> Prop) l1 l2 :
  ForallOrdPairs R l1 -> ForallOrdPairs R l2 -> (forall a b, In a l1 -> In b l2 -> R a b) -> ForallOrdPairs R (l1 ++ l2).
Proof.
  induction 1 as [|a l1 Ha Hl IH]; intros H2 Hc; [exact H2|]. cbn [app]. constructor.
  - apply Forall_app. split; [exact Ha|]. apply Forall_forall. intros b Hb. apply Hc; [left; reflexivity|exact Hb].
  - apply IH; [exact H2|]. intros x y Hx Hy. apply Hc; [right; exact Hx|exact Hy].
Qed.
Lemma Permutation_filter' {A} (f : A -> bool) l l' : Permutation l l' -> Permutation (filter f l) (filter f l').
Proof.
  induction 1 as [|x l l' _ IH|x y l|l l' l'' _ IH1 _ IH2]; cbn [filter]; [constructor| | |eapply perm_trans; eassumption].
  - destruct (f x); [constructor; exact IH|exact IH].
  - destruct (f x), (f y); try apply Permutation_refl. apply perm_swap.
Qed.

Lemma FOP_impl_in {A} (R R' : A -> A -> Prop) l : ForallOrdPairs R l -> (forall a b, In a l -> In b l -> R a b -> R' a b) -> ForallOrdPairs R' l.
Proof.
  induction 1 as [|a l Ha Hl IH]; intro H; constructor.
  - apply Forall_forall. intros b Hb. rewrite Forall_forall in Ha. apply H; [left; reflexivity|right; exact Hb|apply Ha; exact Hb].
  - apply IH. intros x y Hx Hy. apply H; right; assumption.
Qed.
Definition long_disj (a b : Q * Z * Q) : Prop :=
  snd (fst a) = snd (fst b) -> fst (fst a) + snd a < fst (fst b) \/ fst (fst b) + snd b < fst (fst a).
Lemma longs_disjoint_FOP l : longs_disjoint l = true -> ForallOrdPairs long_disj l.
Proof.
  induction l as [|a l IH]; intro H; cbn [longs_disjoint] in H; [constructor|]. apply andb_true_iff in H. destruct H as [H1 H2].
  constructor; [|apply IH; exact H2]. apply Forall_forall. intros b Hb. rewrite forallb_forall in H1. specialize (H1 b Hb).
  intro Ec. apply orb_true_iff in H1. destruct H1 as [H1|H1]; [|right; apply Qlt_bool_iff; exact H1].
  apply orb_true_iff in H1. destruct H1 as [H1|H1]; [|left; apply Qlt_bool_iff; exact H1].
  apply negb_true_iff in H1. apply Z.eqb_neq in H1. contradiction.
Qed.
Lemma combine_map_self {A B} (f : A -> B) l : combine (map f l) l = map (fun x => (f x, x)) l.
Proof. induction l as [|a l IH]; cbn [map combine]; [reflexivity|]. rewrite IH. reflexivity. Qed.
Lemma ref_keys_pos ty k : ref_keys ty = Some k -> (0 < k)%Z.
Proof.
  unfold ref_keys. destruct (find _ ref_chart_keys) as [[t k']|] eqn:F; [|discriminate]. intro H. injection H as <-.
  apply find_some in F. destruct F as [Hin _]. cbn in Hin.
  repeat (destruct Hin as [Hin|Hin]; [injection Hin as _ <-; lia|]). destruct Hin.
Qed.

(* ---------------------------------------------------------------- one chart *)
Section ChartThm.
  Variable cf : smconf.
  Let tbl := k_tbl cf.
  Hypothesis Hcf : cf = ref_conf (k_tbl cf) (k_chart_keys cf).
  Hypothesis Hok : table_ok (1 # 96) tbl = true.
  Variables (rows : list (Q * Q * Q)) (init : Q) (l : list bcs).
  Hypothesis Hscript : tempo_script_of cf rows = Some (init, l).
  Hypothesis Htd : tempo_domb cf rows init l = true.
  Variables (script : list bcs) (beat0 : Q).
  Hypothesis Hsc : Forall2 bcs_eqv script l.
  Hypothesis Hb0 : beat0 == init.
  Let time := beat_time beat0 script.
  Variables (c0 c : smchart) (keys : Z).
  Hypothesis Hrows : c_bpms c = rows.
  Hypothesis Hkeys : ref_keys (c_type c) = Some keys.
  Hypothesis Hcols : forallb (fun e : Q * Z * Z => (0 <=? snd (fst e))%Z && (snd (fst e) <? keys)%Z) (chart_events cf c) = true.
  Hypothesis Hlens : forallb (fun h : Q * Z * Q => Qlt_bool 0 (snd h)) (c_holds c ++ c_rolls c) = true.
  Hypothesis Hdisj : longs_disjoint (c_holds c ++ c_rolls c) = true.
  Hypothesis Htimes : forallb (fun e : Q * Z * Z => time_okb cf init l (fst (fst e))) (chart_events cf c) = true.
  Hypothesis Hdist : distinct_bc (map (fun e : Q * Z * Z => (spec_beat init l (fst (fst e)), snd (fst e))) (chart_events cf c)) = true.
  Hypothesis Hexact : exact_measures cf (spec_placed cf init l c) = true.

  Lemma Kmet : k_metronome cf = 4%Z. Proof. rewrite Hcf. reflexivity. Qed.
  Lemma Kcap : k_max_snap cf = 384%Z. Proof. rewrite Hcf. reflexivity. Qed.
  Lemma Kcap_pos : (0 < k_max_snap cf)%Z. Proof. rewrite Kcap. lia. Qed.
  Lemma keys_pos : (0 < keys)%Z. Proof. apply (ref_keys_pos _ _ Hkeys). Qed.

  Definition bt (o : Q) : Q := spec_beat init l o.
  Definition simple_ev (ch : Z) (n : Q * Z) : Q * Z * Z := (fst n, snd n, ch).
  Definition head_ev (ch : Z) (h : Q * Z * Q) : Q * Z * Z := (fst (fst h), snd (fst h), ch).
  Definition tail_ev (ch : Z) (h : Q * Z * Q) : Q * Z * Z := (Qred (fst (fst h) + snd h), snd (fst h), ch).
  Definition evs : list (Q * Z * Z) :=
    map (simple_ev 49) (c_hits c) ++ map (head_ev 50) (c_holds c) ++ map (tail_ev 51) (c_holds c)
    ++ map (head_ev 52) (c_rolls c) ++ map (tail_ev 51) (c_rolls c)
    ++ map (simple_ev 70) (c_fakes c) ++ map (simple_ev 75) (c_keys c) ++ map (simple_ev 76) (c_lifts c)
    ++ map (simple_ev 77) (c_mines c).
  Lemma evs_eq : chart_events cf c = evs.
  Proof. rewrite Hcf. reflexivity. Qed.

  Definition placeE (e : Q * Z * Z) : placed := place cf (bt (fst (fst e))) (snd (fst e)) (snd e).
  Definition ps : list placed := map placeE evs.
  Lemma ps_eq : spec_placed cf init l c = ps.
  Proof. unfold spec_placed. rewrite evs_eq. reflexivity. Qed.
  Definition os : list Q := map (fun e : Q * Z * Z => fst (fst e)) evs.

  Lemma os_ok : forallb (time_okb cf init l) os = true.
  Proof. unfold os. rewrite forallb_forall. intros o Ho. apply in_map_iff in Ho. destruct Ho as [e [<- He]]. rewrite evs_eq, forallb_forall in Htimes. apply (Htimes e He). Qed.

  Lemma beats_facts : tm_beats tbl (bcos_of rows) os = Some (map bt os)
    /\ (forall o, In o os -> beat_fact init l o (bt o))
    /\ (forall o1 o2, In o1 os -> In o2 os -> o1 <= o2 -> bt o1 <= bt o2).
  Proof.
    destruct (beats_of_times cf Hok rows init l Hscript Htd os os_ok) as [bs [B1 [B2 B3]]].
    assert (E: bs = map bt os) by (apply forall2_eq_map; apply (forall2_impl _ _ _ _ (fun a b H => proj1 H) B2)).
    subst bs. split; [exact B1|]. split; [|exact B3].
    intros o Ho. destruct (forall2_in_l _ _ _ _ B2 Ho) as [b [_ [Eb Hf]]]. unfold bt. rewrite <- Eb. exact Hf.
  Qed.

  Lemma chart_placed_eq : chart_placed cf c = Some ps.
  Proof.
    unfold chart_placed. rewrite evs_eq, Hrows. fold os. fold tbl. rewrite (proj1 beats_facts). f_equal.
    unfold os. rewrite map_map, combine_map_self, map_map. reflexivity.
  Qed.

  (* ---- every event is placed well ---- *)
  Lemma ev_in_os e : In e evs -> In (fst (fst e)) os.
  Proof. intro H. unfold os. apply in_map_iff. exists e. split; [reflexivity|exact H]. Qed.
  Lemma ev_char e : In e evs -> In (snd e) [49; 50; 51; 52; 70; 75; 76; 77]%Z.
  Proof.
    unfold evs. intro H. repeat (apply in_app_or in H; destruct H as [H|H]); apply in_map_iff in H; destruct H as [x [<- _]]; cbn; tauto.
  Qed.
  Lemma ev_goodch e : In e evs -> goodch (snd e) = true.
  Proof. intro H. apply ev_char in H. cbn [In] in H. repeat (destruct H as [<-|H]; [reflexivity|]). destruct H. Qed.
  Lemma ev_col e : In e evs -> (0 <= snd (fst e) < keys)%Z.
  Proof.
    intro H. rewrite evs_eq, forallb_forall in Hcols. specialize (Hcols e H). apply andb_true_iff in Hcols. destruct Hcols as [A B].
    apply Z.leb_le in A. apply Z.ltb_lt in B. lia.
  Qed.
  Lemma bt_nonneg o : In o os -> 0 <= bt o.
  Proof.
    intro H. destruct (proj1 (proj2 beats_facts) o H) as [s [Eb [Hm [H0 _]]]]. rewrite Eb.
    assert (0 <= inject_Z (s_m s)) by (change 0 with (inject_Z 0); rewrite <- Zle_Qle; exact Hm). lra.
  Qed.
  Lemma bt_canon o : Qred (bt o) = bt o.
  Proof. unfold bt, spec_beat. apply Qred_idem. Qed.

  Lemma place_ok e : In e evs -> pl_ok keys (placeE e) /\ (0 <= p_measure (placeE e))%Z.
  Proof.
    intro He. unfold placeE. destruct (place_position cf (bt (fst (fst e))) (snd (fst e)) (snd e) Kmet) as [Hden [Hnum [_ Hm]]].
    split; [split; [exact Hnum|split; [apply (ev_col e He)|apply (ev_goodch e He)]]|].
    rewrite Hm. pose proof (bt_nonneg _ (ev_in_os e He)) as Hb.
    assert (L: inject_Z 0 <= bt (fst (fst e)) / 4) by (change (inject_Z 0) with 0; apply Qle_shift_div_l; lra).
    apply Qfloor_resp_le in L. rewrite Qfloor_Z in L. exact L.
  Qed.
  Lemma ps_ok : Forall (fun p => pl_ok keys p /\ (0 <= p_measure p)%Z) ps.
  Proof. apply Forall_forall. intros p Hp. unfold ps in Hp. apply in_map_iff in Hp. destruct Hp as [e [<- He]]. apply (place_ok e He). Qed.

  Lemma ps_dens_pos m : Forall (fun y => 0 < y)%Z (map p_den (gm ps m)).
  Proof.
    apply Forall_forall. intros y Hy. apply in_map_iff in Hy. destruct Hy as [p [<- Hp]]. apply filter_In in Hp. destruct Hp as [Hp _].
    pose proof ps_ok as H. rewrite Forall_forall in H. destruct (H p Hp) as [[[? ?] _] _]. lia.
  Qed.

  Lemma place_divides e : In e evs -> (p_den (placeE e) | dm_of cf ps (p_measure (placeE e)))%Z.
  Proof.
    intro He. set (p := placeE e). set (m := p_measure p).
    assert (Hp: In p ps) by (unfold ps; apply in_map; exact He).
    assert (Hm: In m (measures_of ps)) by (apply measures_of_in; apply in_map; exact Hp).
    pose proof Hexact as Hx. rewrite ps_eq in Hx. unfold exact_measures in Hx. rewrite forallb_forall in Hx. specialize (Hx m Hm). apply Z.leb_le in Hx.
    unfold dm_of. refine (proj2 (den_max_exact cf (map p_den (gm ps m)) (p_den p) (ps_dens_pos m) _ Hx)).
    apply in_map. unfold gm. apply filter_In. split; [exact Hp|apply Z.eqb_refl].
  Qed.

  Lemma dm_of_pos m : (0 < dm_of cf ps m)%Z.
  Proof. apply (dm_pos cf Kcap_pos keys ps keys_pos ps_ok). Qed.

  Definition ev_cell (e : Q * Z * Z) : cellev := (bt (fst (fst e)), Z.to_nat (snd (fst e)), snd e).
  (* exactness: the cell of an event carries the event's beat itself *)
  Lemma cellof_ev e : In e evs -> cellof cf ps (placeE e) = ev_cell e.
  Proof.
    intro He. unfold cellof, mcell, ev_cell.
    pose proof (place_wbeat_exact cf Kmet (bt (fst (fst e))) (snd (fst e)) (snd e) _ (bt_canon _) (place_divides e He) (dm_of_pos _)) as E.
    unfold placeE in *. rewrite E. reflexivity.
  Qed.

  Definition bcE (e : Q * Z * Z) : Q * Z := (bt (fst (fst e)), snd (fst e)).
  Lemma evs_distinct : ForallOrdPairs (fun x y => ~ same_bc (bcE x) (bcE y)) evs.
  Proof. apply (proj1 (FOP_map bcE (fun x y => ~ same_bc x y) evs)). apply distinct_bc_FOP. rewrite evs_eq in Hdist. exact Hdist. Qed.

  Lemma ps_nodup m : NoDup (map (fun p => (prow (dm_of cf ps m) p, pcol p)) (gm ps m)).
  Proof.
    unfold gm, ps. rewrite filter_map_comm, map_map.
    apply (FOP_nodup _ (fun x y => same_bc (bcE x) (bcE y))); [apply FOP_filter; exact evs_distinct|].
    intros x y Hx Hy Hkey. apply filter_In in Hx, Hy. destruct Hx as [Hx Mx], Hy as [Hy My]. apply Z.eqb_eq in Mx, My.
    injection Hkey as Hr Hc.
    pose proof (cellof_ev x Hx) as Cx. pose proof (cellof_ev y Hy) as Cy. unfold cellof, mcell, ev_cell in Cx, Cy. rewrite Mx in Cx. rewrite My in Cy.
    assert (Bx := f_equal (fun t : cellev => fst (fst t)) Cx). assert (By := f_equal (fun t : cellev => fst (fst t)) Cy). cbn [fst] in Bx, By.
    destruct (place_ok x Hx) as [Okx _]. destruct (place_ok y Hy) as [Oky _].
    pose proof (pl_row_range keys (dm_of cf ps m) keys_pos (dm_of_pos m) _ Okx). pose proof (pl_row_range keys (dm_of cf ps m) keys_pos (dm_of_pos m) _ Oky).
    unfold prow in Hr. change (map placeE evs) with ps in Hr. assert (Er: (p_num (placeE x) * dm_of cf ps m / p_den (placeE x) = p_num (placeE y) * dm_of cf ps m / p_den (placeE y))%Z) by lia.
    split; unfold bcE; cbn [fst snd].
    - rewrite <- Bx, <- By, Er. reflexivity.
    - unfold pcol in Hc. cbn [placeE place p_col] in Hc. pose proof (ev_col x Hx). pose proof (ev_col y Hy). lia.
  Qed.

  (* ---- the stream: cells of simple notes, heads and tails ---- *)
  Let K := Z.to_nat keys.
  Definition cellS (ch : Z) (n : Q * Z) : cellev := (bt (fst n), Z.to_nat (snd n), ch).
  Definition mk_ln (k : kind) (h : Q * Z * Q) : lnote :=
    mkLn k (Z.to_nat (snd (fst h))) (bt (fst (fst h))) (bt (Qred (fst (fst h) + snd h))).
  Definition simp : list (kind * cellev) :=
    map (fun n => (KHit, cellS 49 n)) (c_hits c) ++ map (fun n => (KFake, cellS 70 n)) (c_fakes c)
    ++ map (fun n => (KKey, cellS 75 n)) (c_keys c) ++ map (fun n => (KLift, cellS 76 n)) (c_lifts c)
    ++ map (fun n => (KMine, cellS 77 n)) (c_mines c).
  Definition lns : list lnote := map (mk_ln KHold) (c_holds c) ++ map (mk_ln KRoll) (c_rolls c).

  Definition sS (ch : Z) (x : list (Q * Z)) : list cellev := map (cellS ch) x.
  Definition sH (ch : Z) (x : list (Q * Z * Q)) : list cellev := map (fun h => (bt (fst (fst h)), Z.to_nat (snd (fst h)), ch)) x.
  Definition sT (x : list (Q * Z * Q)) : list cellev := map (fun h => (bt (Qred (fst (fst h) + snd h)), Z.to_nat (snd (fst h)), 51%Z)) x.

  Lemma evs_cells_perm : Permutation (map ev_cell evs) (map snd simp ++ map ln_head lns ++ map ln_tail lns).
  Proof.
    assert (E1: map ev_cell evs = sS 49 (c_hits c) ++ sH 50 (c_holds c) ++ sT (c_holds c) ++ sH 52 (c_rolls c) ++ sT (c_rolls c)
                                 ++ sS 70 (c_fakes c) ++ sS 75 (c_keys c) ++ sS 76 (c_lifts c) ++ sS 77 (c_mines c)).
    { unfold evs. rewrite !map_app, !map_map. reflexivity. }
    assert (E2: map snd simp = sS 49 (c_hits c) ++ sS 70 (c_fakes c) ++ sS 75 (c_keys c) ++ sS 76 (c_lifts c) ++ sS 77 (c_mines c)).
    { unfold simp. rewrite !map_app, !map_map. reflexivity. }
    assert (E3: map ln_head lns = sH 50 (c_holds c) ++ sH 52 (c_rolls c)).
    { unfold lns. rewrite !map_app, !map_map. reflexivity. }
    assert (E4: map ln_tail lns = sT (c_holds c) ++ sT (c_rolls c)).
    { unfold lns. rewrite !map_app, !map_map. reflexivity. }
    rewrite E1, E2, E3, E4.
    generalize (sS 49 (c_hits c)) (sH 50 (c_holds c)) (sT (c_holds c)) (sH 52 (c_rolls c)) (sT (c_rolls c))
               (sS 70 (c_fakes c)) (sS 75 (c_keys c)) (sS 76 (c_lifts c)) (sS 77 (c_mines c)).
    intros a1 a2 a3 a4 a5 a6 a7 a8 a9. psolve.
  Qed.

  Definition heads : list (Q * Z * Z) := map (head_ev 50) (c_holds c) ++ map (head_ev 52) (c_rolls c).
  Definition tails : list (Q * Z * Z) := map (tail_ev 51) (c_holds c) ++ map (tail_ev 51) (c_rolls c).
  Lemma evs_heads_tails : exists rest, Permutation evs (heads ++ tails ++ rest).
  Proof.
    exists (map (simple_ev 49) (c_hits c) ++ map (simple_ev 70) (c_fakes c) ++ map (simple_ev 75) (c_keys c) ++ map (simple_ev 76) (c_lifts c) ++ map (simple_ev 77) (c_mines c)).
    unfold evs, heads, tails.
    generalize (map (simple_ev 49) (c_hits c)) (map (head_ev 50) (c_holds c)) (map (tail_ev 51) (c_holds c)) (map (head_ev 52) (c_rolls c))
               (map (tail_ev 51) (c_rolls c)) (map (simple_ev 70) (c_fakes c)) (map (simple_ev 75) (c_keys c)) (map (simple_ev 76) (c_lifts c))
               (map (simple_ev 77) (c_mines c)).
    intros a1 a2 a3 a4 a5 a6 a7 a8 a9. psolve.
  Qed.
  Lemma heads_in x : In x heads -> In x evs.
  Proof. destruct evs_heads_tails as [rest P]. intro H. apply (Permutation_in _ (Permutation_sym P)). apply in_or_app. left. exact H. Qed.
  Lemma tails_in x : In x tails -> In x evs.
  Proof. destruct evs_heads_tails as [rest P]. intro H. apply (Permutation_in _ (Permutation_sym P)). apply in_or_app. right. apply in_or_app. left. exact H. Qed.
  Lemma head_tail_distinct x y : In x heads -> In y tails -> ~ same_bc (bcE x) (bcE y).
  Proof.
    destruct evs_heads_tails as [rest P]. intros Hx Hy.
    assert (F: ForallOrdPairs (fun x y => ~ same_bc (bcE x) (bcE y)) (heads ++ tails ++ rest)).
    { apply (FOP_perm _ (fun a b (H : ~ same_bc (bcE a) (bcE b)) (G : same_bc (bcE b) (bcE a)) =>
                            H (conj (Qeq_sym _ _ (proj1 G)) (eq_sym (proj2 G)))) _ _ P evs_distinct). }
    apply (FOP_app_in _ _ _ x y F Hx). apply in_or_app. left. exact Hy.
  Qed.
  Lemma bt_mono_ev x y : In x evs -> In y evs -> fst (fst x) <= fst (fst y) -> bt (fst (fst x)) <= bt (fst (fst y)).
  Proof. intros Hx Hy. apply (proj2 (proj2 beats_facts)); apply ev_in_os; assumption. Qed.
  Lemma head_before_tail x y : In x heads -> In y tails -> snd (fst x) = snd (fst y) -> fst (fst x) <= fst (fst y) ->
    bt (fst (fst x)) < bt (fst (fst y)).
  Proof.
    intros Hx Hy Ec Hle. pose proof (bt_mono_ev x y (heads_in x Hx) (tails_in y Hy) Hle) as L.
    destruct (Qle_lt_or_eq _ _ L) as [G|G]; [exact G|]. exfalso. apply (head_tail_distinct x y Hx Hy). split; [exact G|exact Ec].
  Qed.
  Lemma tail_before_head x y : In x heads -> In y tails -> snd (fst x) = snd (fst y) -> fst (fst y) <= fst (fst x) ->
    bt (fst (fst y)) < bt (fst (fst x)).
  Proof.
    intros Hx Hy Ec Hle. pose proof (bt_mono_ev y x (tails_in y Hy) (heads_in x Hx) Hle) as L.
    destruct (Qle_lt_or_eq _ _ L) as [G|G]; [exact G|]. exfalso. apply (head_tail_distinct x y Hx Hy). split; [symmetry; exact G|exact Ec].
  Qed.

  (* tagged long notes *)
  Definition TL : list (kind * (Q * Z * Q)) := map (pair KHold) (c_holds c) ++ map (pair KRoll) (c_rolls c).
  Lemma lns_TL : lns = map (fun kh : kind * (Q * Z * Q) => mk_ln (fst kh) (snd kh)) TL.
  Proof. unfold lns, TL. rewrite map_app, !map_map. reflexivity. Qed.
  Lemma TL_snd : map snd TL = c_holds c ++ c_rolls c.
  Proof. unfold TL. rewrite map_app, !map_map, !map_id. reflexivity. Qed.
  Lemma TL_facts kh : In kh TL ->
    (fst kh = KHold \/ fst kh = KRoll) /\ 0 < snd (snd kh)
    /\ exists x y, In x heads /\ In y tails /\ fst x = fst (snd kh) /\ fst y = (Qred (fst (fst (snd kh)) + snd (snd kh)), snd (fst (snd kh))).
  Proof.
    intro H. assert (Hl: 0 < snd (snd kh)).
    { rewrite forallb_forall in Hlens. apply Qlt_bool_iff. apply Hlens. rewrite <- TL_snd. apply in_map. exact H. }
    unfold TL in H. apply in_app_or in H. destruct H as [H|H]; apply in_map_iff in H; destruct H as [h [<- Hh]]; cbn [fst snd].
    - split; [left; reflexivity|]. split; [exact Hl|]. exists (head_ev 50 h), (tail_ev 51 h).
      split; [unfold heads; apply in_or_app; left; apply in_map; exact Hh|]. split; [unfold tails; apply in_or_app; left; apply in_map; exact Hh|].
      split; [destruct h as [[o cl] ln]; reflexivity|reflexivity].
    - split; [right; reflexivity|]. split; [exact Hl|]. exists (head_ev 52 h), (tail_ev 51 h).
      split; [unfold heads; apply in_or_app; right; apply in_map; exact Hh|]. split; [unfold tails; apply in_or_app; right; apply in_map; exact Hh|].
      split; [destruct h as [[o cl] ln]; reflexivity|reflexivity].
  Qed.

  Lemma lns_ok : Forall (fun a => (ln_kind a = KHold \/ ln_kind a = KRoll) /\ ln_hb a < ln_tb a) lns.
  Proof.
    rewrite lns_TL. apply Forall_forall. intros a Ha. apply in_map_iff in Ha. destruct Ha as [kh [<- Hkh]].
    destruct (TL_facts kh Hkh) as [Hk [Hl [x [y [Hx [Hy [Ex Ey]]]]]]]. cbn [mk_ln ln_kind ln_hb ln_tb]. split; [exact Hk|].
    pose proof (head_before_tail x y Hx Hy) as HB. rewrite Ex, Ey in HB. cbn [fst snd] in HB. apply HB; [reflexivity|]. rewrite Qred_correct. lra.
  Qed.

  Lemma lns_disjoint : ForallOrdPairs (fun a b => ln_col a = ln_col b -> ln_tb a < ln_hb b \/ ln_tb b < ln_hb a) lns.
  Proof.
    rewrite lns_TL. apply FOP_map.
    assert (F: ForallOrdPairs (fun a b : kind * (Q * Z * Q) => long_disj (snd a) (snd b)) TL).
    { apply (proj1 (FOP_map snd long_disj TL)). rewrite TL_snd. apply longs_disjoint_FOP. exact Hdisj. }
    apply (FOP_impl_in _ _ _ F). intros a b Ha Hb Hd Ecol. cbn [mk_ln ln_col ln_hb ln_tb] in *.
    destruct (TL_facts a Ha) as [_ [_ [xa [ya [Hxa [Hya [Exa Eya]]]]]]]. destruct (TL_facts b Hb) as [_ [_ [xb [yb [Hxb [Hyb [Exb Eyb]]]]]]].
    assert (Ec: snd (fst (snd a)) = snd (fst (snd b))).
    { pose proof (ev_col xa (heads_in xa Hxa)) as C1. pose proof (ev_col xb (heads_in xb Hxb)) as C2. rewrite Exa in C1. rewrite Exb in C2. lia. }
    destruct (Hd Ec) as [D|D].
    - left. pose proof (tail_before_head xb ya Hxb Hya) as T. rewrite Exb, Eya in T. cbn [fst snd] in T. apply T; [symmetry; exact Ec|]. rewrite Qred_correct. lra.
    - right. pose proof (tail_before_head xa yb Hxa Hyb) as T. rewrite Exa, Eyb in T. cbn [fst snd] in T. apply T; [exact Ec|]. rewrite Qred_correct. lra.
  Qed.

  Lemma simp_syms : Forall (fun kx : kind * cellev => lookup_sym (cch (snd kx)) = Some (fst kx)) simp.
  Proof.
    unfold simp. rewrite !Forall_app. repeat split; apply Forall_forall; intros kx H; apply in_map_iff in H; destruct H as [n [<- _]]; reflexivity.
  Qed.

  Definition S : list cellev := map (cellof cf ps) (cscan cf keys ps (measures_of ps)).
  Lemma S_perm : Permutation S (map ev_cell evs).
  Proof.
    unfold S. eapply perm_trans; [apply Permutation_map; apply (cscan_perm cf Kcap_pos keys ps keys_pos ps_ok)|].
    unfold ps. rewrite map_map. assert (E: map (fun x => cellof cf (map placeE evs) (placeE x)) evs = map ev_cell evs).
    { apply map_ext_in. intros e He. apply (cellof_ev e He). }
    rewrite E. apply Permutation_refl.
  Qed.
  Lemma S_cols : Forall (fun x => (ccol x < K)%nat) S.
  Proof.
    apply Forall_forall. intros x Hx. apply (Permutation_in _ S_perm) in Hx. apply in_map_iff in Hx. destruct Hx as [e [<- He]].
    unfold ev_cell, ccol, K. cbn [fst snd]. pose proof (ev_col e He). lia.
  Qed.

  Lemma stream_runs : exists op acc, run time S (repeat None K, []) = Some (op, acc)
     /\ Forall (fun o => o = None) op
     /\ Permutation acc (map (fun kx : kind * cellev => simple_note time (fst kx) (snd kx)) simp ++ map (ln_note time) lns).
  Proof.
    apply run_stream.
    - apply (cscan_sorted cf Kcap_pos keys ps keys_pos ps_ok ps_nodup).
    - eapply perm_trans; [apply S_perm|apply evs_cells_perm].
    - apply simp_syms.
    - apply lns_ok.
    - apply lns_disjoint.
    - apply S_cols.
  Qed.

  (* ---- conclusion ---- *)
  Hypothesis Hgk : get_keys cf (c_type c) = Some keys.

  Lemma dnotes_of_app k a b : dnotes_of k (a ++ b) = dnotes_of k a ++ dnotes_of k b.
  Proof. unfold dnotes_of. rewrite filter_app, map_app. reflexivity. Qed.
  Lemma dnotes_of_seg {A} k k' (fc : A -> Z) (ft fl : A -> Q) (x : list A) :
    dnotes_of k (map (fun a => mkDn k' (fc a) (ft a) (fl a)) x) = if kind_eqb k' k then map (fun a => (fc a, ft a, fl a)) x else [].
  Proof.
    unfold dnotes_of. induction x as [|a x IH]; cbn [map filter dn_kind]; [destruct (kind_eqb k' k); reflexivity|].
    destruct (kind_eqb k' k) eqn:E; cbn [map dn_col dn_time dn_len]; [f_equal|]; exact IH.
  Qed.

  Lemma time_bt o : In o os -> time (bt o) == o.
  Proof.
    intro Ho. unfold time. apply (beat_time_exact cf rows init l Hscript Htd script beat0 o (bt o) (bt o) Hsc Hb0); [|reflexivity].
    apply (proj1 (proj2 beats_facts) o Ho).
  Qed.

  Lemma simple_seg_eqv ch (x : list (Q * Z)) : (forall n, In n x -> In (simple_ev ch n) evs) ->
    Forall2 note_eqv (map (fun n => (Z.of_nat (ccol (cellS ch n)), time (cbeat (cellS ch n)), 0)) x) (simple4 x).
  Proof.
    intro H. unfold simple4. apply forall2_map_l. apply forall2_map_r. induction x as [|n x IH]; constructor.
    - specialize (H n (or_introl eq_refl)). unfold note_eqv, cellS, ccol, cbeat. cbn [fst snd]. split; [|split; [|reflexivity]].
      + pose proof (ev_col _ H) as Hc. cbn [simple_ev fst snd] in Hc. lia.
      + pose proof (time_bt _ (ev_in_os _ H)) as Ht. cbn [simple_ev fst snd] in Ht. exact Ht.
    - apply IH. intros m Hm. apply H. right. exact Hm.
  Qed.
  Lemma long_seg_eqv k (x : list (Q * Z * Q)) : (forall h, In h x -> In (k, h) TL) ->
    Forall2 note_eqv (map (fun h => (Z.of_nat (ln_col (mk_ln k h)), time (ln_hb (mk_ln k h)), Qred (time (ln_tb (mk_ln k h)) - time (ln_hb (mk_ln k h))))) x) (hold4 x).
  Proof.
    intro H. unfold hold4. apply forall2_map_l. apply forall2_map_r. induction x as [|h x IH]; constructor.
    - destruct (TL_facts (k, h) (H h (or_introl eq_refl))) as [_ [_ [xe [ye [Hx [Hy [Ex Ey]]]]]]]. cbn [fst snd] in Ex, Ey.
      unfold note_eqv, mk_ln. cbn [fst snd ln_col ln_hb ln_tb].
      pose proof (ev_col _ (heads_in _ Hx)) as Hc. rewrite Ex in Hc.
      pose proof (time_bt _ (ev_in_os _ (heads_in _ Hx))) as T1. rewrite Ex in T1.
      pose proof (time_bt _ (ev_in_os _ (tails_in _ Hy))) as T2. rewrite Ey in T2. cbn [fst] in T2.
      split; [lia|]. split; [exact T1|]. rewrite Qred_correct, T1, T2, Qred_correct. ring.
    - apply IH. intros m Hm. apply H. right. exact Hm.
  Qed.

  Lemma in_evs_seg (P : (Q * Z * Z) -> Prop) : forall e, In e evs -> In e evs. Proof. auto. Qed.

  Theorem chart_thm :
    exists body, chart_body cf current c = Some body
      /\ (body = [] \/ (head_nows body /\ head_nows (rev body))) /\ forallb bodych body = true
      /\ exists op notes ns,
           denote_measures (match body with [] => [] | _ => split_on 44 body end) keys 0 time (repeat None (Z.to_nat keys)) [] [] = Some (op, notes, ns)
           /\ forallb (fun o : option (kind * Q) => match o with None => true | Some _ => false end) op = true
           /\ forall k, perm_eqv (dnotes_of k (rev notes)) (chart_list c k).
  Proof.
    destruct stream_runs as [op [acc [R1 [R2 R3]]]].
    destruct (chart_body_denote cf Kmet Kcap_pos time keys ps keys_pos ps_ok ps_nodup) as [out [W1 W2]]. cbv zeta in W2.
    destruct W2 as [B1 [B2 [B3 B4]]].
    exists (join [10%Z; 44%Z; 10%Z] out). split; [|split; [|split]].
    - unfold chart_body. rewrite chart_placed_eq, Hgk, W1. reflexivity.
    - destruct ps as [|p0 ps'] eqn:Eps; [left; apply B1; reflexivity|right; apply B2; discriminate].
    - exact B3.
    - destruct (B4 _ _ _ _ R1) as [ns D]. exists op, acc, ns. split; [exact D|]. split.
      + apply forallb_forall. intros o Ho. rewrite Forall_forall in R2. rewrite (R2 o Ho). reflexivity.
      + intro k.
        set (SN := map (fun kx : kind * cellev => simple_note time (fst kx) (snd kx)) simp) in *.
        set (LN := map (ln_note time) lns) in *.
        assert (P: Permutation (dnotes_of k (rev acc)) (dnotes_of k (SN ++ LN))).
        { unfold dnotes_of. apply Permutation_map. apply Permutation_filter'.
          eapply perm_trans; [apply Permutation_sym; apply Permutation_rev|exact R3]. }
        eexists. split; [exact P|].
        unfold SN, LN, simp, lns. rewrite !map_app, !map_map. rewrite !dnotes_of_app.
        unfold simple_note, ln_note. cbn [fst snd mk_ln ln_kind ln_col ln_hb ln_tb].
        rewrite !(dnotes_of_seg k).
        assert (I1: forall n, In n (c_hits c) -> In (simple_ev 49 n) evs) by (intros n Hn; unfold evs; apply in_or_app; left; apply in_map; exact Hn).
        assert (I2: forall n, In n (c_fakes c) -> In (simple_ev 70 n) evs) by (intros n Hn; unfold evs; do 5 (apply in_or_app; right); apply in_or_app; left; apply in_map; exact Hn).
        assert (I3: forall n, In n (c_keys c) -> In (simple_ev 75 n) evs) by (intros n Hn; unfold evs; do 6 (apply in_or_app; right); apply in_or_app; left; apply in_map; exact Hn).
        assert (I4: forall n, In n (c_lifts c) -> In (simple_ev 76 n) evs) by (intros n Hn; unfold evs; do 7 (apply in_or_app; right); apply in_or_app; left; apply in_map; exact Hn).
        assert (I5: forall n, In n (c_mines c) -> In (simple_ev 77 n) evs) by (intros n Hn; unfold evs; do 8 (apply in_or_app; right); apply in_map; exact Hn).
        assert (I6: forall h, In h (c_holds c) -> In (KHold, h) TL) by (intros h Hh; unfold TL; apply in_or_app; left; apply in_map; exact Hh).
        assert (I7: forall h, In h (c_rolls c) -> In (KRoll, h) TL) by (intros h Hh; unfold TL; apply in_or_app; right; apply in_map; exact Hh).
        destruct k; cbn [kind_eqb chart_list app]; rewrite ?app_nil_r.
        * apply (simple_seg_eqv 49 _ I1).
        * apply (long_seg_eqv KHold _ I6).
        * apply (long_seg_eqv KRoll _ I7).
        * apply (simple_seg_eqv 77 _ I5).
        * apply (simple_seg_eqv 76 _ I4).
        * apply (simple_seg_eqv 70 _ I2).
        * apply (simple_seg_eqv 75 _ I3).
  Qed.
End ChartThm.
