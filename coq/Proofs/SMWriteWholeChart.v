(* C03 whole-file writer theorem, part 5: one chart.  In the exact domain (Formats/SMWriteDom.v) the writer places every
   event in the cell of its beat, the note data is written, and the reference semantics reads from it exactly the
   chart's objects: per kind a permutation, with times and lengths equal as numbers. *)
From Coq Require Import String ZArith QArith Qround Qabs List Bool Lia Lqa Sorting.Sorted Sorting.Permutation.
From RV Require Import Base.PyNum Timing.Snapper Timing.Snap Timing.TimingMap Timing.Reseat Timing.Integrate
  Timing.Domain Timing.Domain2 Formats.SMText Formats.SM Formats.SMSpec Formats.SMWriteDom
  Proofs.SnapperProofs Proofs.TimingProofs Proofs.RederiveProofs Proofs.TimingProofs2
  Proofs.SMProofs Proofs.SMWriteProofs Proofs.SMWriteWholeRun Proofs.SMWriteWholeText Proofs.SMWriteWholeTime Proofs.SMWriteWholeGrid.
Import ListNotations.
Open Scope Q_scope.

(* ---------------------------------------------------------------- the per-measure row count in the exact regime *)
Section Exact.
  Variable cf : smconf.
  Hypothesis Hmet : k_metronome cf = 4%Z.
  Hypothesis Hcap : (0 < k_max_snap cf)%Z.
  Let cap := k_max_snap cf.

  Lemma fold_lcm_ge r : forall d, (0 < d)%Z -> Forall (fun y => 0 < y)%Z r -> (d <= fold_left Z.lcm r d)%Z.
  Proof.
    induction r as [|y r IH]; intros d Hd Hr; cbn [fold_left]; [lia|]. apply Forall_cons_iff in Hr. destruct Hr as [Hy Hr].
    pose proof (lcm_ge cf d y Hd Hy). pose proof (lcm_pos cf d y Hd Hy). specialize (IH (Z.lcm d y) ltac:(lia) Hr). lia.
  Qed.
  (* the <= version of fold_below_cap: when the true lcm fits the cap the capped fold is the true lcm *)
  Lemma fold_cap_exact r : forall d, (0 < d)%Z -> Forall (fun y => 0 < y)%Z r -> (fold_left Z.lcm r d <= cap)%Z ->
    fold_left (lcm_and_cap cf) r d = fold_left Z.lcm r d.
  Proof.
    induction r as [|y r IH]; intros d Hd Hr Hle; cbn [fold_left] in *; [reflexivity|]. apply Forall_cons_iff in Hr. destruct Hr as [Hy Hr].
    pose proof (lcm_pos cf d y Hd Hy) as Hp. pose proof (fold_lcm_ge r (Z.lcm d y) Hp Hr) as Hg.
    unfold lcm_and_cap at 2. fold cap. rewrite Z.min_l by lia. apply IH; assumption.
  Qed.
  Theorem den_max_exact dens x : Forall (fun y => 0 < y)%Z dens -> In x dens -> (true_lcm dens <= cap)%Z ->
    den_max_of cf dens = true_lcm dens /\ (x | den_max_of cf dens)%Z.
  Proof.
    intros Hp Hx Hle. destruct dens as [|d r]; [destruct Hx|]. apply Forall_cons_iff in Hp. destruct Hp as [Hd Hr].
    unfold true_lcm in *. cbn [fold_left] in *. rewrite Z.lcm_1_l, Z.abs_eq in * by lia.
    unfold den_max_of. fold cap. rewrite (fold_cap_exact r d Hd Hr Hle), Z.min_l by lia. split; [reflexivity|].
    apply fold_lcm_divides. exact Hx.
  Qed.

  (* a beat in lowest terms is written in the row whose beat is that beat, literally *)
  Lemma place_wbeat_exact b col ch dm : Qred b = b -> (p_den (place cf b col ch) | dm)%Z -> (0 < dm)%Z ->
    wbeat (p_measure (place cf b col ch)) dm (p_num (place cf b col ch) * dm / p_den (place cf b col ch)) = b.
  Proof.
    intros Hb Hdiv Hdm. destruct (place_position cf b col ch Hmet) as [Hden [Hnum [Hpos _]]].
    set (p := place cf b col ch) in *. unfold wbeat. transitivity (Qred b); [|exact Hb]. apply Qred_complete.
    pose proof (row_position_exact (p_num p) (p_den p) dm Hden Hdm Hdiv) as E.
    pose proof (inj_pos dm Hdm) as Hdm'.
    setoid_replace (inject_Z (4 * (p_num p * dm / p_den p)) / inject_Z dm) with (4 * (inject_Z (p_num p * dm / p_den p) / inject_Z dm)).
    - rewrite E, Hpos, inject_Z_mult. change (inject_Z 4) with 4. field.
    - rewrite inject_Z_mult. change (inject_Z 4) with 4. field. lra.
  Qed.
End Exact.

(* ---------------------------------------------------------------- list helpers *)
Lemma forall2_eq_map {A B} (f : A -> B) l r : Forall2 (fun a b => b = f a) l r -> r = map f l.
Proof. induction 1; cbn; congruence. Qed.
Lemma filter_map_comm {A B} (f : A -> B) (q : B -> bool) l : filter q (map f l) = map f (filter (fun x => q (f x)) l).
Proof. induction l as [|a l IH]; cbn [map filter]; [reflexivity|]. destruct (q (f a)); cbn [map]; rewrite IH; reflexivity. Qed.
Lemma FOP_filter {A} (R : A -> A -> Prop) (q : A -> bool) l : ForallOrdPairs R l -> ForallOrdPairs R (filter q l).
Proof.
  induction 1 as [|a l Ha Hl IH]; cbn [filter]; [constructor|]. destruct (q a); [|exact IH]. constructor; [|exact IH].
  apply Forall_forall. intros x Hx. apply filter_In in Hx. rewrite Forall_forall in Ha. apply Ha. apply Hx.
Qed.
Lemma FOP_nodup {X K} (key : X -> K) (same : X -> X -> Prop) l :
  ForallOrdPairs (fun x y => ~ same x y) l -> (forall x y, In x l -> In y l -> key x = key y -> same x y) -> NoDup (map key l).
Proof.
  induction 1 as [|a l Ha Hl IH]; intro H; cbn [map]; constructor.
  - intro Hin. apply in_map_iff in Hin. destruct Hin as [y [Ey Hy]]. rewrite Forall_forall in Ha. apply (Ha y Hy).
    apply H; [left; reflexivity|right; exact Hy|symmetry; exact Ey].
  - apply IH. intros x y Hx Hy. apply H; right; assumption.
Qed.
Definition same_bc (x y : Q * Z) : Prop := fst x == fst y /\ snd x = snd y.
Lemma distinct_bc_FOP l : distinct_bc l = true -> ForallOrdPairs (fun x y => ~ same_bc x y) l.
Proof.
  induction l as [|x l IH]; intro H; cbn [distinct_bc] in H; [constructor|]. apply andb_true_iff in H. destruct H as [H1 H2].
  constructor; [|apply IH; exact H2]. apply Forall_forall. intros y Hy [E1 E2]. apply negb_true_iff in H1.
  assert (existsb (fun y : Q * Z => Qeq_bool (fst x) (fst y) && (snd x =? snd y)%Z) l = true); [|congruence].
  apply existsb_exists. exists y. split; [exact Hy|]. apply andb_true_iff. split; [apply Qeq_bool_iff; exact E1|apply Z.eqb_eq; exact E2].
Qed.
Lemma FOP_map {A B} (f : A -> B) (R : B -> B -> Prop) l : ForallOrdPairs R (map f l) <-> ForallOrdPairs (fun x y => R (f x) (f y)) l.
Proof.
  induction l as [|a l IH]; cbn [map]; split; intro H; try constructor; inversion H as [|? ? Ha Hl]; subst.
  - apply Forall_forall. intros x Hx. rewrite Forall_forall in Ha. apply Ha. apply in_map. exact Hx.
  - apply IH. exact Hl.
  - apply Forall_forall. intros y Hy. apply in_map_iff in Hy. destruct Hy as [x [<- Hx]]. rewrite Forall_forall in Ha. apply Ha. exact Hx.
  - apply IH. exact Hl.
Qed.
Lemma FOP_app_l {A} (R : A -> A -> Prop) l1 l2 : ForallOrdPairs R (l1 ++ l2) -> ForallOrdPairs R l1.
Proof.
  induction l1 as [|a l1 IH]; intro H; [constructor|]. cbn [app] in H. inversion H as [|? ? Ha Hl]; subst. constructor; [|apply IH; exact Hl].
  apply Forall_app in Ha. apply Ha.
Qed.
Lemma FOP_app_r {A} (R : A -> A -> Prop) l1 l2 : ForallOrdPairs R (l1 ++ l2) -> ForallOrdPairs R l2.
Proof. induction l1 as [|a l1 IH]; intro H; [exact H|]. cbn [app] in H. inversion H; subst. apply IH. assumption. Qed.
Lemma FOP_app_intro {A} (R : A -> A -> Prop) l1 l2 :
  ForallOrdPairs R l1 -> ForallOrdPairs R l2 -> (forall a b, In a l1 -> In b l2 -> R a b) -> ForallOrdPairs R (l1 ++ l2).
Proof.
  induction 1 as [|a l1 Ha Hl IH]; intros H2 Hc; [exact H2|]. cbn [app]. constructor.
  - apply Forall_app. split; [exact Ha|]. apply Forall_forall. intros b Hb. apply Hc; [left; reflexivity|exact Hb].
  - apply IH; [exact H2|]. intros x y Hx Hy. apply Hc; [right; exact Hx|exact Hy].
Qed.
Lemma Permutation_filter' {A} (f : A -> bool) l l' : Permutation l l' -> Permutation (filter f l) (filter f l').
Proof.
  induction 1 as [|x l l' _ IH|x y l|l l' l'' _ IH1 _ IH2]; cbn [filter]; [constructor| | |eapply perm_trans; eassumption].
  - destruct (f x); [constructor; exact IH|exact IH].
  - destruct (f x), (f y); try apply Permutation_refl. apply perm_swap.
Qed.

Lemma FOP_impl_in {A} (R R' : A -> A -> Prop) l : ForallOrdPairs R l -> (forall a b, In a l -> In b l -> R a b -> R' a b) -> ForallOrdPairs R' l.
Proof.
  induction 1 as [|a l Ha Hl IH]; intro H; constructor.
  - apply Forall_forall. intros b Hb. rewrite Forall_forall in Ha. apply H; [left; reflexivity|right; exact Hb|apply Ha; exact Hb].
  - apply IH. intros x y Hx Hy. apply H; right; assumption.
Qed.
Definition long_disj (a b : Q * Z * Q) : Prop :=
  snd (fst a) = snd (fst b) -> fst (fst a) + snd a < fst (fst b) \/ fst (fst b) + snd b < fst (fst a).
Lemma longs_disjoint_FOP l : longs_disjoint l = true -> ForallOrdPairs long_disj l.
Proof.
  induction l as [|a l IH]; intro H; cbn [longs_disjoint] in H; [constructor|]. apply andb_true_iff in H. destruct H as [H1 H2].
  constructor; [|apply IH; exact H2]. apply Forall_forall. intros b Hb. rewrite forallb_forall in H1. specialize (H1 b Hb).
  intro Ec. apply orb_true_iff in H1. destruct H1 as [H1|H1]; [|right; apply Qlt_bool_iff; exact H1].
  apply orb_true_iff in H1. destruct H1 as [H1|H1]; [|left; apply Qlt_bool_iff; exact H1].
  apply negb_true_iff in H1. apply Z.eqb_neq in H1. contradiction.
Qed.
Lemma combine_map_self {A B} (f : A -> B) l : combine (map f l) l = map (fun x => (f x, x)) l.
Proof. induction l as [|a l IH]; cbn [map combine]; [reflexivity|]. rewrite IH. reflexivity. Qed.
Lemma ref_keys_pos ty k : ref_keys ty = Some k -> (0 < k)%Z.
Proof.
  unfold ref_keys. destruct (find _ ref_chart_keys) as [[t k']|] eqn:F; [|discriminate]. intro H. injection H as <-.
  apply find_some in F. destruct F as [Hin _]. cbn in Hin.
  repeat (destruct Hin as [Hin|Hin]; [injection Hin as _ <-; lia|]). destruct Hin.
Qed.

(* cells as triples *)
Definition cell3_eqb (x y : Z * Z * Z) : bool :=
  let '(a, b, c) := x in let '(a', b', c') := y in (a =? a')%Z && (b =? b')%Z && (c =? c')%Z.
Lemma cell3_eqb_spec x y : cell3_eqb x y = true <-> x = y.
Proof.
  destruct x as [[a b] c], y as [[a' b'] c']. unfold cell3_eqb. rewrite !andb_true_iff, !Z.eqb_eq.
  split; [intros [[-> ->] ->]; reflexivity|intro H; injection H as -> -> ->; auto].
Qed.
Lemma distinct_cells_FOP l : distinct_cells l = true -> ForallOrdPairs (fun x y => x <> y) l.
Proof.
  induction l as [|[[a b] c] l IH]; intro H; cbn [distinct_cells] in H; [constructor|]. apply andb_true_iff in H. destruct H as [H1 H2].
  constructor; [|apply IH; exact H2]. apply Forall_forall. intros y Hy E. subst y. apply negb_true_iff in H1.
  assert (existsb (fun x : Z * Z * Z => let '(a', b', c') := x in (a =? a')%Z && (b =? b')%Z && (c =? c')%Z) l = true); [|congruence].
  apply existsb_exists. exists (a, b, c). split; [exact Hy|]. rewrite !Z.eqb_refl. reflexivity.
Qed.
Lemma FOP_distinct_cells l : ForallOrdPairs (fun x y => x <> y) l -> distinct_cells l = true.
Proof.
  induction 1 as [|[[a b] c] l Ha _ IH]; [reflexivity|]. cbn [distinct_cells]. rewrite IH, andb_true_r. apply negb_true_iff.
  destruct (existsb _ l) eqn:E; [|reflexivity]. exfalso. apply existsb_exists in E. destruct E as [[[a' b'] c'] [Hy Hc]].
  rewrite !andb_true_iff, !Z.eqb_eq in Hc. destruct Hc as [[-> ->] ->]. rewrite Forall_forall in Ha. apply (Ha _ Hy). reflexivity.
Qed.

Lemma wbeat_le m n r r' : (0 < n)%Z -> (r <= r')%Z -> wbeat m n r <= wbeat m n r'.
Proof.
  intros Hn Hr. destruct (Z.eq_dec r r') as [->|Hne]; [apply Qle_refl|]. apply Qlt_le_weak. apply wbeat_lt; [exact Hn|lia].
Qed.

(* two notes differ in column or in time *)
Definition keys_differ (x y : note4) : Prop := ~ (fst (fst x) = fst (fst y) /\ snd (fst x) == snd (fst y)).

(* ---------------------------------------------------------------- one chart *)
Section ChartThm.
  Variable cf : smconf.
  Let tbl := k_tbl cf.
  Hypothesis Hcf : cf = ref_conf (k_tbl cf) (k_chart_keys cf).
  Hypothesis Hok : table_ok (1 # 96) tbl = true.
  Variables (rows : list (Q * Q * Q)) (init : Q) (l : list bcs).
  Hypothesis Hscript : tempo_script_of cf rows = Some (init, l).
  Hypothesis Htd : tempo_domb cf rows init l = true.
  Variables (script : list bcs) (beat0 : Q).
  Hypothesis Hsc : Forall2 bcs_eqv script l.
  Hypothesis Hb0 : beat0 == init.
  Let time := beat_time beat0 script.
  Variables (c : smchart) (keys : Z).
  Hypothesis Hrows : c_bpms c = rows.
  Hypothesis Hkeys : ref_keys (c_type c) = Some keys.
  Hypothesis Hgk : get_keys cf (c_type c) = Some keys.
  Hypothesis Hcols : forallb (fun e : Q * Z * Z => (0 <=? snd (fst e))%Z && (snd (fst e) <? keys)%Z) (chart_events cf c) = true.
  Hypothesis Hlens : forallb (fun h : Q * Z * Q => Qlt_bool 0 (snd h)) (c_holds c ++ c_rolls c) = true.
  Hypothesis Hdisj : longs_disjoint (c_holds c ++ c_rolls c) = true.
  Hypothesis Htimes : forallb (fun e : Q * Z * Z => time_okb cf init l (fst (fst e))) (chart_events cf c) = true.

  Lemma Kmet : k_metronome cf = 4%Z. Proof. rewrite Hcf. reflexivity. Qed.
  Lemma Kcap : k_max_snap cf = 384%Z. Proof. rewrite Hcf. reflexivity. Qed.
  Lemma Kcap_pos : (0 < k_max_snap cf)%Z. Proof. rewrite Kcap. lia. Qed.
  Lemma keys_pos : (0 < keys)%Z. Proof. apply (ref_keys_pos _ _ Hkeys). Qed.

  Definition bt (o : Q) : Q := spec_beat init l o.
  Definition simple_ev (ch : Z) (n : Q * Z) : Q * Z * Z := (fst n, snd n, ch).
  Definition head_ev (ch : Z) (h : Q * Z * Q) : Q * Z * Z := (fst (fst h), snd (fst h), ch).
  Definition tail_ev (ch : Z) (h : Q * Z * Q) : Q * Z * Z := (Qred (fst (fst h) + snd h), snd (fst h), ch).
  Definition evs : list (Q * Z * Z) :=
    map (simple_ev 49) (c_hits c) ++ map (head_ev 50) (c_holds c) ++ map (tail_ev 51) (c_holds c)
    ++ map (head_ev 52) (c_rolls c) ++ map (tail_ev 51) (c_rolls c)
    ++ map (simple_ev 70) (c_fakes c) ++ map (simple_ev 75) (c_keys c) ++ map (simple_ev 76) (c_lifts c)
    ++ map (simple_ev 77) (c_mines c).
  Lemma evs_eq : chart_events cf c = evs.
  Proof. rewrite Hcf. reflexivity. Qed.

  Definition placeE (e : Q * Z * Z) : placed := place cf (bt (fst (fst e))) (snd (fst e)) (snd e).
  Definition ps : list placed := map placeE evs.
  Lemma ps_eq : spec_placed cf init l c = ps.
  Proof. unfold spec_placed. rewrite evs_eq. reflexivity. Qed.
  Definition os : list Q := map (fun e : Q * Z * Z => fst (fst e)) evs.

  Lemma os_ok : forallb (time_okb cf init l) os = true.
  Proof. unfold os. rewrite forallb_forall. intros o Ho. apply in_map_iff in Ho. destruct Ho as [e [<- He]]. rewrite evs_eq, forallb_forall in Htimes. apply (Htimes e He). Qed.

  Lemma beats_facts : tm_beats tbl (bcos_of rows) os = Some (map bt os)
    /\ (forall o, In o os -> beat_fact init l o (bt o))
    /\ (forall o1 o2, In o1 os -> In o2 os -> o1 <= o2 -> bt o1 <= bt o2).
  Proof.
    destruct (beats_of_times cf Hok rows init l Hscript Htd os os_ok) as [bs [B1 [B2 B3]]].
    assert (E: bs = map bt os) by (apply forall2_eq_map; apply (forall2_impl _ _ _ _ (fun a b H => proj1 H) B2)).
    subst bs. split; [exact B1|]. split; [|exact B3].
    intros o Ho. destruct (forall2_in_l _ _ _ _ B2 Ho) as [b [_ [Eb Hf]]]. unfold bt. rewrite <- Eb. exact Hf.
  Qed.

  Lemma chart_placed_eq : chart_placed cf c = Some ps.
  Proof.
    unfold chart_placed. rewrite evs_eq, Hrows. fold os. fold tbl. rewrite (proj1 beats_facts). f_equal.
    unfold os. rewrite map_map, combine_map_self, map_map. reflexivity.
  Qed.

  (* ---- every event is placed well ---- *)
  Lemma ev_in_os e : In e evs -> In (fst (fst e)) os.
  Proof. intro H. unfold os. apply in_map_iff. exists e. split; [reflexivity|exact H]. Qed.
  Lemma ev_char e : In e evs -> In (snd e) [49; 50; 51; 52; 70; 75; 76; 77]%Z.
  Proof.
    unfold evs. intro H. repeat (apply in_app_or in H; destruct H as [H|H]); apply in_map_iff in H; destruct H as [x [<- _]]; cbn; tauto.
  Qed.
  Lemma ev_goodch e : In e evs -> goodch (snd e) = true.
  Proof. intro H. apply ev_char in H. cbn [In] in H. repeat (destruct H as [<-|H]; [reflexivity|]). destruct H. Qed.
  Lemma ev_col e : In e evs -> (0 <= snd (fst e) < keys)%Z.
  Proof.
    intro H. rewrite evs_eq, forallb_forall in Hcols. specialize (Hcols e H). apply andb_true_iff in Hcols. destruct Hcols as [A B].
    apply Z.leb_le in A. apply Z.ltb_lt in B. lia.
  Qed.
  Lemma bt_nonneg o : In o os -> 0 <= bt o.
  Proof.
    intro H. destruct (proj1 (proj2 beats_facts) o H) as [s [Eb [Hm [H0 _]]]]. rewrite Eb.
    assert (0 <= inject_Z (s_m s)) by (change 0 with (inject_Z 0); rewrite <- Zle_Qle; exact Hm). lra.
  Qed.
  Lemma bt_canon o : Qred (bt o) = bt o.
  Proof. unfold bt, spec_beat. apply Qred_idem. Qed.

  Lemma place_ok e : In e evs -> pl_ok keys (placeE e) /\ (0 <= p_measure (placeE e))%Z.
  Proof.
    intro He. unfold placeE. destruct (place_position cf (bt (fst (fst e))) (snd (fst e)) (snd e) Kmet) as [Hden [Hnum [_ Hm]]].
    split; [split; [exact Hnum|split; [apply (ev_col e He)|apply (ev_goodch e He)]]|].
    rewrite Hm. pose proof (bt_nonneg _ (ev_in_os e He)) as Hb.
    assert (L: inject_Z 0 <= bt (fst (fst e)) / 4) by (change (inject_Z 0) with 0; apply Qle_shift_div_l; lra).
    apply Qfloor_resp_le in L. rewrite Qfloor_Z in L. exact L.
  Qed.
  Lemma ps_ok : Forall (fun p => pl_ok keys p /\ (0 <= p_measure p)%Z) ps.
  Proof. apply Forall_forall. intros p Hp. unfold ps in Hp. apply in_map_iff in Hp. destruct Hp as [e [<- He]]. apply (place_ok e He). Qed.
  Lemma ps_dens_pos m : Forall (fun y => 0 < y)%Z (map p_den (gm ps m)).
  Proof.
    apply Forall_forall. intros y Hy. apply in_map_iff in Hy. destruct Hy as [p [<- Hp]]. apply filter_In in Hp. destruct Hp as [Hp _].
    pose proof ps_ok as H. rewrite Forall_forall in H. destruct (H p Hp) as [[[? ?] _] _]. lia.
  Qed.
  Lemma dm_of_pos m : (0 < dm_of cf ps m)%Z.
  Proof. apply (dm_pos cf Kcap_pos keys ps keys_pos ps_ok). Qed.

  (* ---- the written cell and the written beat of an event ---- *)
  Definition mE (e : Q * Z * Z) : Z := p_measure (placeE e).
  Definition dmE (e : Q * Z * Z) : Z := dm_of cf ps (mE e).
  Definition rowE (e : Q * Z * Z) : Z := (p_num (placeE e) * dmE e / p_den (placeE e))%Z.
  Definition wbE (e : Q * Z * Z) : Q := wbeat (mE e) (dmE e) (rowE e).
  Definition wcell (e : Q * Z * Z) : cellev := (wbE e, Z.to_nat (snd (fst e)), snd e).
  Definition cellE (e : Q * Z * Z) : Z * Z * Z := (mE e, rowE e, snd (fst e)).
  Lemma wcell_eq e : cellof cf ps (placeE e) = wcell e.
  Proof. reflexivity. Qed.
  Lemma cellE_eq e : cell_of_placed cf ps (placeE e) = cellE e.
  Proof. reflexivity. Qed.

  Lemma rowE_range e : In e evs -> (0 <= rowE e < dmE e)%Z.
  Proof. intro He. apply (pl_row_range keys (dmE e) keys_pos (dm_of_pos _) _ (proj1 (place_ok e He))). Qed.
  Lemma wbE_range e : In e evs -> inject_Z (4 * mE e) <= wbE e /\ wbE e < inject_Z (4 * (mE e + 1)).
  Proof. intro He. apply wbeat_range; [apply dm_of_pos|apply (rowE_range e He)]. Qed.

  Lemma den_cases e : In e evs -> (p_den (placeE e) | dmE e)%Z \/ dmE e = 384%Z.
  Proof.
    intro He. set (p := placeE e). set (m := mE e).
    assert (Hp: In p ps) by (unfold ps; apply in_map; exact He).
    assert (Hin: In (p_den p) (map p_den (gm ps m))).
    { apply in_map. unfold gm. apply filter_In. split; [exact Hp|apply Z.eqb_refl]. }
    unfold dmE, dm_of. fold m.
    pose proof (den_max_le_cap cf (map p_den (gm ps m))) as Hle. rewrite Kcap in Hle.
    destruct (Z.eq_dec (den_max_of cf (map p_den (gm ps m))) 384) as [E|N]; [right; exact E|left].
    apply (den_max_below_cap_divides cf Kcap_pos _ _ (ps_dens_pos m)); [rewrite Kcap; lia|exact Hin].
  Qed.

  (* the written beat is the event's beat rounded down to the row grid of its measure: exact when the row count is the
     true lcm, less than one 384th of a measure early when the cap was hit *)
  Lemma wbE_bound e : In e evs ->
    wbE e <= bt (fst (fst e)) /\ bt (fst (fst e)) < wbE e + (4 # 384)
    /\ ((p_den (placeE e) | dmE e)%Z -> wbE e = bt (fst (fst e))).
  Proof.
    intro He. destruct (place_position cf (bt (fst (fst e))) (snd (fst e)) (snd e) Kmet) as [Hden [Hnum [Hpos _]]].
    fold (placeE e) in Hden, Hnum, Hpos. fold (mE e) in Hpos.
    pose proof (dm_of_pos (mE e)) as Hdm. fold (dmE e) in Hdm.
    assert (Hex: (p_den (placeE e) | dmE e)%Z -> wbE e = bt (fst (fst e))).
    { intro Hdiv. apply (place_wbeat_exact cf Kmet (bt (fst (fst e))) (snd (fst e)) (snd e) (dmE e) (bt_canon _) Hdiv Hdm). }
    split; [|split; [|exact Hex]].
    - destruct (row_truncation_bound (p_num (placeE e)) (p_den (placeE e)) (dmE e) Hden Hdm (proj1 Hnum)) as [L _].
      fold (rowE e) in L. unfold wbE. rewrite wbeat_val, !inject_Z_mult. change (inject_Z 4) with 4.
      pose proof (inj_pos _ Hdm) as Hdm'.
      setoid_replace (4 * inject_Z (rowE e) / inject_Z (dmE e)) with (4 * (inject_Z (rowE e) / inject_Z (dmE e))) by (field; lra).
      rewrite Hpos in L. set (r := inject_Z (rowE e) / inject_Z (dmE e)) in *.
      assert (E4: (bt (fst (fst e)) - 4 * inject_Z (mE e)) / 4 * 4 == bt (fst (fst e)) - 4 * inject_Z (mE e)) by field.
      pose proof (Qmult_le_compat_r _ _ 4 L ltac:(lra)) as L4. rewrite E4 in L4. lra.
    - destruct (den_cases e He) as [Hdiv|E384].
      + rewrite (Hex Hdiv). lra.
      + destruct (row_truncation_bound (p_num (placeE e)) (p_den (placeE e)) (dmE e) Hden Hdm (proj1 Hnum)) as [_ U].
        fold (rowE e) in U. unfold wbE. rewrite wbeat_val, !inject_Z_mult. change (inject_Z 4) with 4.
        rewrite E384 in *. change (inject_Z 384) with 384 in *. rewrite Hpos in U.
        assert (E4: (bt (fst (fst e)) - 4 * inject_Z (mE e)) / 4 * 4 == bt (fst (fst e)) - 4 * inject_Z (mE e)) by field.
        pose proof (Qmult_lt_compat_r _ _ 4 ltac:(lra) U) as U4. rewrite E4 in U4.
        setoid_replace ((inject_Z (rowE e) + 1) / 384 * 4) with (4 * inject_Z (rowE e) / 384 + (4 # 384)) in U4 by field. lra.
  Qed.

  Lemma rows_cross e e' : In e evs -> In e' evs -> mE e = mE e' -> bt (fst (fst e)) <= bt (fst (fst e')) -> (rowE e <= rowE e')%Z.
  Proof.
    intros He He' Em Hb.
    destruct (place_position cf (bt (fst (fst e))) (snd (fst e)) (snd e) Kmet) as [Hden [Hnum [Hpos _]]].
    destruct (place_position cf (bt (fst (fst e'))) (snd (fst e')) (snd e') Kmet) as [Hden' [Hnum' [Hpos' _]]].
    fold (placeE e) in Hden, Hnum, Hpos. fold (mE e) in Hpos. fold (placeE e') in Hden', Hnum', Hpos'. fold (mE e') in Hpos'. rewrite <- Em in Hpos'.
    assert (Hq: inject_Z (p_num (placeE e)) / inject_Z (p_den (placeE e)) <= inject_Z (p_num (placeE e')) / inject_Z (p_den (placeE e'))).
    { rewrite Hpos, Hpos'. apply div_le_cross; lra. }
    pose proof (inj_pos _ Hden) as D1. pose proof (inj_pos _ Hden') as D2.
    assert (Hc: inject_Z (p_num (placeE e)) * inject_Z (p_den (placeE e')) <= inject_Z (p_num (placeE e')) * inject_Z (p_den (placeE e))).
    { assert (P0: 0 <= inject_Z (p_den (placeE e)) * inject_Z (p_den (placeE e'))) by (apply Qmult_le_0_compat; lra).
      pose proof (Qmult_le_compat_r _ _ _ Hq P0) as G.
      setoid_replace (inject_Z (p_num (placeE e)) / inject_Z (p_den (placeE e)) * (inject_Z (p_den (placeE e)) * inject_Z (p_den (placeE e'))))
        with (inject_Z (p_num (placeE e)) * inject_Z (p_den (placeE e'))) in G by (field; lra).
      setoid_replace (inject_Z (p_num (placeE e')) / inject_Z (p_den (placeE e')) * (inject_Z (p_den (placeE e)) * inject_Z (p_den (placeE e'))))
        with (inject_Z (p_num (placeE e')) * inject_Z (p_den (placeE e))) in G by (field; lra).
      exact G. }
    rewrite <- !inject_Z_mult, <- Zle_Qle in Hc.
    unfold rowE, dmE. rewrite <- Em. pose proof (dm_of_pos (mE e)) as Hdm. set (dm := dm_of cf ps (mE e)) in *.
    apply Z.div_le_lower_bound; [lia|].
    pose proof (Z.mul_div_le (p_num (placeE e) * dm) (p_den (placeE e)) ltac:(lia)) as M.
    set (r := (p_num (placeE e) * dm / p_den (placeE e))%Z) in *.
    assert (G: (p_den (placeE e) * (p_den (placeE e') * r) <= p_den (placeE e) * (p_num (placeE e') * dm))%Z) by nia.
    apply Z.mul_le_mono_pos_l in G; lia.
  Qed.

  Lemma mE_mono e e' : bt (fst (fst e)) <= bt (fst (fst e')) -> (mE e <= mE e')%Z.
  Proof.
    intro Hb. destruct (place_position cf (bt (fst (fst e))) (snd (fst e)) (snd e) Kmet) as [_ [_ [_ Hm]]].
    destruct (place_position cf (bt (fst (fst e'))) (snd (fst e')) (snd e') Kmet) as [_ [_ [_ Hm']]].
    unfold mE, placeE. rewrite Hm, Hm'. apply Qfloor_resp_le. apply div_le_cross; lra.
  Qed.

  Lemma wbE_mono e e' : In e evs -> In e' evs -> bt (fst (fst e)) <= bt (fst (fst e')) -> wbE e <= wbE e'.
  Proof.
    intros He He' Hb. pose proof (mE_mono e e' Hb) as Hm.
    destruct (Z.eq_dec (mE e) (mE e')) as [Em|Nm].
    - assert (Ed: dmE e' = dmE e) by (unfold dmE; rewrite Em; reflexivity).
      unfold wbE. rewrite <- Em, Ed. apply wbeat_le; [apply dm_of_pos|apply (rows_cross e e' He He' Em Hb)].
    - destruct (wbE_range e He) as [_ U]. destruct (wbE_range e' He') as [L _].
      assert (inject_Z (4 * (mE e + 1)) <= inject_Z (4 * mE e')) by (rewrite <- Zle_Qle; lia). lra.
  Qed.
  Lemma wbE_inj e e' : In e evs -> In e' evs -> wbE e == wbE e' -> mE e = mE e' /\ rowE e = rowE e'.
  Proof.
    intros He He' E. destruct (wbE_range e He) as [L U]. destruct (wbE_range e' He') as [L' U'].
    assert (Em: mE e = mE e').
    { destruct (Z.lt_trichotomy (mE e) (mE e')) as [H|[H|H]]; [|exact H|].
      - assert (inject_Z (4 * (mE e + 1)) <= inject_Z (4 * mE e')) by (rewrite <- Zle_Qle; lia). lra.
      - assert (inject_Z (4 * (mE e' + 1)) <= inject_Z (4 * mE e)) by (rewrite <- Zle_Qle; lia). lra. }
    split; [exact Em|]. assert (Ed: dmE e' = dmE e) by (unfold dmE; rewrite Em; reflexivity).
    unfold wbE in E. rewrite <- Em, Ed in E. pose proof (dm_of_pos (mE e)) as Hdm. fold (dmE e) in Hdm.
    destruct (Z.lt_trichotomy (rowE e) (rowE e')) as [H|[H|H]]; [|exact H|].
    - pose proof (wbeat_lt (mE e) _ _ _ Hdm H). lra.
    - pose proof (wbeat_lt (mE e) _ _ _ Hdm H). lra.
  Qed.

  (* ================= with pairwise distinct cells (the common core of the exact and the cap regime) ================= *)
  Definition CELLS : Prop := distinct_cells (map (cell_of_placed cf ps) ps) = true.

  Lemma evs_distinct (HC : CELLS) : ForallOrdPairs (fun x y => cellE x <> cellE y) evs.
  Proof.
    unfold CELLS, ps in HC. rewrite map_map in HC. apply distinct_cells_FOP in HC.
    apply (proj1 (FOP_map cellE (fun x y => x <> y) evs)). exact HC.
  Qed.

  Lemma ps_nodup (HC : CELLS) m : NoDup (map (fun p => (prow (dm_of cf ps m) p, pcol p)) (gm ps m)).
  Proof.
    unfold gm, ps. rewrite filter_map_comm, map_map.
    apply (FOP_nodup _ (fun x y => cellE x = cellE y)); [apply FOP_filter; exact (evs_distinct HC)|].
    intros x y Hx Hy Hkey. apply filter_In in Hx, Hy. destruct Hx as [Hx Mx], Hy as [Hy My]. apply Z.eqb_eq in Mx, My.
    injection Hkey as Hr Hc. change (map placeE evs) with ps in Hr.
    pose proof (rowE_range x Hx) as Rx. pose proof (rowE_range y Hy) as Ry. unfold rowE, dmE, mE in Rx, Ry. rewrite Mx in Rx. rewrite My in Ry.
    unfold cellE, rowE, dmE, mE. rewrite Mx, My. unfold prow in Hr. unfold pcol in Hc. cbn [placeE place p_col] in Hc.
    pose proof (ev_col x Hx). pose proof (ev_col y Hy). f_equal; [f_equal|]; lia.
  Qed.

  (* ---- the stream: cells of simple notes, heads and tails ---- *)
  Let K := Z.to_nat keys.
  Definition mk_ln (k : kind) (hch : Z) (h : Q * Z * Q) : lnote :=
    mkLn k (Z.to_nat (snd (fst h))) (wbE (head_ev hch h)) (wbE (tail_ev 51 h)).
  Definition simp : list (kind * cellev) :=
    map (fun n => (KHit, wcell (simple_ev 49 n))) (c_hits c) ++ map (fun n => (KFake, wcell (simple_ev 70 n))) (c_fakes c)
    ++ map (fun n => (KKey, wcell (simple_ev 75 n))) (c_keys c) ++ map (fun n => (KLift, wcell (simple_ev 76 n))) (c_lifts c)
    ++ map (fun n => (KMine, wcell (simple_ev 77 n))) (c_mines c).
  Definition lns : list lnote := map (mk_ln KHold 50) (c_holds c) ++ map (mk_ln KRoll 52) (c_rolls c).

  Definition sS (ch : Z) (x : list (Q * Z)) : list cellev := map (fun n => wcell (simple_ev ch n)) x.
  Definition sH (ch : Z) (x : list (Q * Z * Q)) : list cellev := map (fun h => wcell (head_ev ch h)) x.
  Definition sT (x : list (Q * Z * Q)) : list cellev := map (fun h => wcell (tail_ev 51 h)) x.

  Lemma evs_cells_perm : Permutation (map wcell evs) (map snd simp ++ map ln_head lns ++ map ln_tail lns).
  Proof.
    assert (E1: map wcell evs = sS 49 (c_hits c) ++ sH 50 (c_holds c) ++ sT (c_holds c) ++ sH 52 (c_rolls c) ++ sT (c_rolls c)
                                 ++ sS 70 (c_fakes c) ++ sS 75 (c_keys c) ++ sS 76 (c_lifts c) ++ sS 77 (c_mines c)).
    { unfold evs. rewrite !map_app, !map_map. reflexivity. }
    assert (E2: map snd simp = sS 49 (c_hits c) ++ sS 70 (c_fakes c) ++ sS 75 (c_keys c) ++ sS 76 (c_lifts c) ++ sS 77 (c_mines c)).
    { unfold simp. rewrite !map_app, !map_map. reflexivity. }
    assert (E3: map ln_head lns = sH 50 (c_holds c) ++ sH 52 (c_rolls c)).
    { unfold lns. rewrite !map_app, !map_map. reflexivity. }
    assert (E4: map ln_tail lns = sT (c_holds c) ++ sT (c_rolls c)).
    { unfold lns. rewrite !map_app, !map_map. reflexivity. }
    rewrite E1, E2, E3, E4.
    generalize (sS 49 (c_hits c)) (sH 50 (c_holds c)) (sT (c_holds c)) (sH 52 (c_rolls c)) (sT (c_rolls c))
               (sS 70 (c_fakes c)) (sS 75 (c_keys c)) (sS 76 (c_lifts c)) (sS 77 (c_mines c)).
    intros a1 a2 a3 a4 a5 a6 a7 a8 a9. psolve.
  Qed.

  Definition heads : list (Q * Z * Z) := map (head_ev 50) (c_holds c) ++ map (head_ev 52) (c_rolls c).
  Definition tails : list (Q * Z * Z) := map (tail_ev 51) (c_holds c) ++ map (tail_ev 51) (c_rolls c).
  Lemma evs_heads_tails : exists rest, Permutation evs (heads ++ tails ++ rest).
  Proof.
    exists (map (simple_ev 49) (c_hits c) ++ map (simple_ev 70) (c_fakes c) ++ map (simple_ev 75) (c_keys c) ++ map (simple_ev 76) (c_lifts c) ++ map (simple_ev 77) (c_mines c)).
    unfold evs, heads, tails.
    generalize (map (simple_ev 49) (c_hits c)) (map (head_ev 50) (c_holds c)) (map (tail_ev 51) (c_holds c)) (map (head_ev 52) (c_rolls c))
               (map (tail_ev 51) (c_rolls c)) (map (simple_ev 70) (c_fakes c)) (map (simple_ev 75) (c_keys c)) (map (simple_ev 76) (c_lifts c))
               (map (simple_ev 77) (c_mines c)).
    intros a1 a2 a3 a4 a5 a6 a7 a8 a9. psolve.
  Qed.
  Lemma heads_in x : In x heads -> In x evs.
  Proof. destruct evs_heads_tails as [rest P]. intro H. apply (Permutation_in _ (Permutation_sym P)). apply in_or_app. left. exact H. Qed.
  Lemma tails_in x : In x tails -> In x evs.
  Proof. destruct evs_heads_tails as [rest P]. intro H. apply (Permutation_in _ (Permutation_sym P)). apply in_or_app. right. apply in_or_app. left. exact H. Qed.
  Lemma head_tail_distinct (HC : CELLS) x y : In x heads -> In y tails -> cellE x <> cellE y.
  Proof.
    destruct evs_heads_tails as [rest P]. intros Hx Hy.
    assert (F: ForallOrdPairs (fun x y => cellE x <> cellE y) (heads ++ tails ++ rest)).
    { apply (FOP_perm _ (fun a b (H : cellE a <> cellE b) (G : cellE b = cellE a) => H (eq_sym G)) _ _ P (evs_distinct HC)). }
    apply (FOP_app_in _ _ _ x y F Hx). apply in_or_app. left. exact Hy.
  Qed.
  Lemma bt_mono_ev x y : In x evs -> In y evs -> fst (fst x) <= fst (fst y) -> bt (fst (fst x)) <= bt (fst (fst y)).
  Proof. intros Hx Hy. apply (proj2 (proj2 beats_facts)); apply ev_in_os; assumption. Qed.
  Lemma head_before_tail (HC : CELLS) x y : In x heads -> In y tails -> snd (fst x) = snd (fst y) -> fst (fst x) <= fst (fst y) ->
    wbE x < wbE y.
  Proof.
    intros Hx Hy Ec Hle. pose proof (wbE_mono x y (heads_in x Hx) (tails_in y Hy) (bt_mono_ev x y (heads_in x Hx) (tails_in y Hy) Hle)) as L.
    destruct (Qle_lt_or_eq _ _ L) as [G|G]; [exact G|]. exfalso. apply (head_tail_distinct HC x y Hx Hy).
    destruct (wbE_inj x y (heads_in x Hx) (tails_in y Hy) G) as [E1 E2]. unfold cellE. rewrite E1, E2, Ec. reflexivity.
  Qed.
  Lemma tail_before_head (HC : CELLS) x y : In x heads -> In y tails -> snd (fst x) = snd (fst y) -> fst (fst y) <= fst (fst x) ->
    wbE y < wbE x.
  Proof.
    intros Hx Hy Ec Hle. pose proof (wbE_mono y x (tails_in y Hy) (heads_in x Hx) (bt_mono_ev y x (tails_in y Hy) (heads_in x Hx) Hle)) as L.
    destruct (Qle_lt_or_eq _ _ L) as [G|G]; [exact G|]. exfalso. apply (head_tail_distinct HC x y Hx Hy).
    destruct (wbE_inj y x (tails_in y Hy) (heads_in x Hx) G) as [E1 E2]. unfold cellE. rewrite E1, E2, Ec. reflexivity.
  Qed.

  (* tagged long notes: kind, head character, note *)
  Definition TL : list (kind * Z * (Q * Z * Q)) := map (pair (KHold, 50%Z)) (c_holds c) ++ map (pair (KRoll, 52%Z)) (c_rolls c).
  Lemma lns_TL : lns = map (fun kh : kind * Z * (Q * Z * Q) => mk_ln (fst (fst kh)) (snd (fst kh)) (snd kh)) TL.
  Proof. unfold lns, TL. rewrite map_app, !map_map. reflexivity. Qed.
  Lemma TL_snd : map snd TL = c_holds c ++ c_rolls c.
  Proof. unfold TL. rewrite map_app, !map_map, !map_id. reflexivity. Qed.
  Lemma TL_facts kh : In kh TL ->
    (fst (fst kh) = KHold \/ fst (fst kh) = KRoll) /\ 0 < snd (snd kh)
    /\ In (head_ev (snd (fst kh)) (snd kh)) heads /\ In (tail_ev 51 (snd kh)) tails.
  Proof.
    intro H. assert (Hl: 0 < snd (snd kh)).
    { rewrite forallb_forall in Hlens. apply Qlt_bool_iff. apply Hlens. rewrite <- TL_snd. apply in_map. exact H. }
    unfold TL in H. apply in_app_or in H. destruct H as [H|H]; apply in_map_iff in H; destruct H as [h [<- Hh]]; cbn [fst snd].
    - split; [left; reflexivity|]. split; [exact Hl|].
      split; [unfold heads; apply in_or_app; left; apply in_map; exact Hh|unfold tails; apply in_or_app; left; apply in_map; exact Hh].
    - split; [right; reflexivity|]. split; [exact Hl|].
      split; [unfold heads; apply in_or_app; right; apply in_map; exact Hh|unfold tails; apply in_or_app; right; apply in_map; exact Hh].
  Qed.

  Lemma lns_ok (HC : CELLS) : Forall (fun a => (ln_kind a = KHold \/ ln_kind a = KRoll) /\ ln_hb a < ln_tb a) lns.
  Proof.
    rewrite lns_TL. apply Forall_forall. intros a Ha. apply in_map_iff in Ha. destruct Ha as [kh [<- Hkh]].
    destruct (TL_facts kh Hkh) as [Hk [Hl [Hx Hy]]]. cbn [mk_ln ln_kind ln_hb ln_tb]. split; [exact Hk|].
    apply (head_before_tail HC _ _ Hx Hy); [reflexivity|]. cbn [head_ev tail_ev fst snd]. rewrite Qred_correct. lra.
  Qed.

  Lemma lns_disjoint (HC : CELLS) : ForallOrdPairs (fun a b => ln_col a = ln_col b -> ln_tb a < ln_hb b \/ ln_tb b < ln_hb a) lns.
  Proof.
    rewrite lns_TL. apply FOP_map.
    assert (F: ForallOrdPairs (fun a b : kind * Z * (Q * Z * Q) => long_disj (snd a) (snd b)) TL).
    { apply (proj1 (FOP_map snd long_disj TL)). rewrite TL_snd. apply longs_disjoint_FOP. exact Hdisj. }
    apply (FOP_impl_in _ _ _ F). intros a b Ha Hb Hd Ecol. cbn [mk_ln ln_col ln_hb ln_tb] in *.
    destruct (TL_facts a Ha) as [_ [_ [Hxa Hya]]]. destruct (TL_facts b Hb) as [_ [_ [Hxb Hyb]]].
    assert (Ec: snd (fst (snd a)) = snd (fst (snd b))).
    { pose proof (ev_col _ (heads_in _ Hxa)) as C1. pose proof (ev_col _ (heads_in _ Hxb)) as C2. cbn [head_ev fst snd] in C1, C2. lia. }
    destruct (Hd Ec) as [D|D].
    - left. apply (tail_before_head HC _ _ Hxb Hya); [cbn [head_ev tail_ev fst snd]; symmetry; exact Ec|]. cbn [head_ev tail_ev fst snd]. rewrite Qred_correct. lra.
    - right. apply (tail_before_head HC _ _ Hxa Hyb); [cbn [head_ev tail_ev fst snd]; exact Ec|]. cbn [head_ev tail_ev fst snd]. rewrite Qred_correct. lra.
  Qed.

  Lemma simp_syms : Forall (fun kx : kind * cellev => lookup_sym (cch (snd kx)) = Some (fst kx)) simp.
  Proof.
    unfold simp. rewrite !Forall_app. repeat split; apply Forall_forall; intros kx H; apply in_map_iff in H; destruct H as [n [<- _]]; reflexivity.
  Qed.

  Definition strm : list cellev := map (cellof cf ps) (cscan cf keys ps (measures_of ps)).
  Lemma strm_perm : Permutation strm (map wcell evs).
  Proof.
    unfold strm. eapply perm_trans; [apply Permutation_map; apply (cscan_perm cf Kcap_pos keys ps keys_pos ps_ok)|].
    unfold ps. rewrite map_map. apply Permutation_refl.
  Qed.
  Lemma strm_cols : Forall (fun x => (ccol x < K)%nat) strm.
  Proof.
    apply Forall_forall. intros x Hx. apply (Permutation_in _ strm_perm) in Hx. apply in_map_iff in Hx. destruct Hx as [e [<- He]].
    unfold wcell, ccol, K. cbn [fst snd]. pose proof (ev_col e He). lia.
  Qed.

  Lemma stream_runs (HC : CELLS) : exists op acc, run time strm (repeat None K, []) = Some (op, acc)
     /\ Forall (fun o => o = None) op
     /\ Permutation acc (map (fun kx : kind * cellev => simple_note time (fst kx) (snd kx)) simp ++ map (ln_note time) lns).
  Proof.
    apply run_stream.
    - apply (cscan_sorted cf Kcap_pos keys ps keys_pos ps_ok (ps_nodup HC)).
    - eapply perm_trans; [apply strm_perm|apply evs_cells_perm].
    - apply simp_syms.
    - apply (lns_ok HC).
    - apply (lns_disjoint HC).
    - apply strm_cols.
  Qed.

  (* ---- conclusion, general form: per kind, the denoted notes are a permutation of the chart's notes at their WRITTEN beats ---- *)
  Lemma dnotes_of_app k a b : dnotes_of k (a ++ b) = dnotes_of k a ++ dnotes_of k b.
  Proof. unfold dnotes_of. rewrite filter_app, map_app. reflexivity. Qed.
  Lemma dnotes_of_seg {A} k k' (fc : A -> Z) (ft fl : A -> Q) (x : list A) :
    dnotes_of k (map (fun a => mkDn k' (fc a) (ft a) (fl a)) x) = if kind_eqb k' k then map (fun a => (fc a, ft a, fl a)) x else [].
  Proof.
    unfold dnotes_of. induction x as [|a x IH]; cbn [map filter dn_kind]; [destruct (kind_eqb k' k); reflexivity|].
    destruct (kind_eqb k' k) eqn:E; cbn [map dn_col dn_time dn_len]; [f_equal|]; exact IH.
  Qed.

  Definition wsimple (ch : Z) (x : list (Q * Z)) : list note4 :=
    map (fun n => (Z.of_nat (Z.to_nat (snd n)), time (wbE (simple_ev ch n)), 0)) x.
  Definition wlong (hch : Z) (x : list (Q * Z * Q)) : list note4 :=
    map (fun h => (Z.of_nat (Z.to_nat (snd (fst h))), time (wbE (head_ev hch h)), Qred (time (wbE (tail_ev 51 h)) - time (wbE (head_ev hch h))))) x.
  Definition wlist (k : kind) : list note4 :=
    match k with
    | KHit => wsimple 49 (c_hits c) | KHold => wlong 50 (c_holds c) | KRoll => wlong 52 (c_rolls c) | KMine => wsimple 77 (c_mines c)
    | KLift => wsimple 76 (c_lifts c) | KFake => wsimple 70 (c_fakes c) | KKey => wsimple 75 (c_keys c)
    end.

  Theorem chart_thm_gen (HC : CELLS) :
    exists body, chart_body cf current c = Some body
      /\ (body = [] \/ (head_nows body /\ head_nows (rev body))) /\ forallb bodych body = true
      /\ exists op notes ns,
           denote_measures (match body with [] => [] | _ => split_on 44 body end) keys 0 time (repeat None (Z.to_nat keys)) [] [] = Some (op, notes, ns)
           /\ forallb (fun o : option (kind * Q) => match o with None => true | Some _ => false end) op = true
           /\ forall k, Permutation (dnotes_of k (rev notes)) (wlist k).
  Proof.
    destruct (stream_runs HC) as [op [acc [R1 [R2 R3]]]].
    destruct (chart_body_denote cf Kmet Kcap_pos time keys ps keys_pos ps_ok (ps_nodup HC)) as [out [W1 W2]]. cbv zeta in W2.
    destruct W2 as [B1 [B2 [B3 B4]]].
    exists (join [10%Z; 44%Z; 10%Z] out). split; [|split; [|split]].
    - unfold chart_body. rewrite chart_placed_eq, Hgk, W1. reflexivity.
    - destruct ps as [|p0 ps'] eqn:Eps; [left; apply B1; reflexivity|right; apply B2; discriminate].
    - exact B3.
    - destruct (B4 _ _ _ _ R1) as [ns D]. exists op, acc, ns. split; [exact D|]. split.
      + apply forallb_forall. intros o Ho. rewrite Forall_forall in R2. rewrite (R2 o Ho). reflexivity.
      + intro k.
        set (SN := map (fun kx : kind * cellev => simple_note time (fst kx) (snd kx)) simp) in *.
        set (LN := map (ln_note time) lns) in *.
        assert (P: Permutation (dnotes_of k (rev acc)) (dnotes_of k (SN ++ LN))).
        { unfold dnotes_of. apply Permutation_map. apply Permutation_filter'.
          eapply perm_trans; [apply Permutation_sym; apply Permutation_rev|exact R3]. }
        eapply perm_trans; [exact P|].
        unfold SN, LN, simp, lns. rewrite !map_app, !map_map. rewrite !dnotes_of_app.
        unfold simple_note, ln_note. cbn [fst snd mk_ln ln_kind ln_col ln_hb ln_tb wcell ccol cbeat].
        rewrite !(dnotes_of_seg k).
        destruct k; cbn [kind_eqb wlist app]; rewrite ?app_nil_r; apply Permutation_refl.
  Qed.

  (* every measure of the written note data has a multiple of 4 rows, whatever interpretation reads it *)
  Theorem chart_rows4_gen (HC : CELLS) body : chart_body cf current c = Some body ->
    forall keys' time' op acc op' acc' ns,
      denote_measures (match body with [] => [] | _ => split_on 44 body end) keys' 0 time' op acc [] = Some (op', acc', ns) ->
      Forall (fun n => (n mod 4 = 0)%Z) ns.
  Proof.
    intro Hb. unfold chart_body in Hb. rewrite chart_placed_eq, Hgk in Hb.
    destruct (write_measures cf current ps (Some keys) (-1) (measures_of ps)) as [out|] eqn:W; [|discriminate]. injection Hb as <-.
    apply (chart_body_rows4 cf Kmet Kcap_pos time keys ps keys_pos ps_ok (ps_nodup HC)); [rewrite Kcap; reflexivity| |exact W].
    intros p Hp. unfold ps in Hp. apply in_map_iff in Hp. destruct Hp as (e & <- & _). unfold placeE, place. cbn [p_den]. rewrite Kmet.
    apply Z.mod_mul. lia.
  Qed.

  Lemma time_bt o : In o os -> time (bt o) == o.
  Proof.
    intro Ho. unfold time. apply (beat_time_exact cf rows init l Hscript Htd script beat0 o (bt o) (bt o) Hsc Hb0); [|reflexivity].
    apply (proj1 (proj2 beats_facts) o Ho).
  Qed.

  (* ================= the exact regime ================= *)
  Section ExactRegime.
    Hypothesis Hdist : distinct_bc (map (fun e : Q * Z * Z => (spec_beat init l (fst (fst e)), snd (fst e))) (chart_events cf c)) = true.
    Hypothesis Hexact : exact_measures cf (spec_placed cf init l c) = true.

    Lemma place_divides e : In e evs -> (p_den (placeE e) | dmE e)%Z.
    Proof.
      intro He. set (p := placeE e). set (m := mE e).
      assert (Hp: In p ps) by (unfold ps; apply in_map; exact He).
      assert (Hm: In m (measures_of ps)) by (apply measures_of_in; apply in_map_iff; exists p; split; [reflexivity|exact Hp]).
      pose proof Hexact as Hx. rewrite ps_eq in Hx. unfold exact_measures in Hx. rewrite forallb_forall in Hx. specialize (Hx m Hm). apply Z.leb_le in Hx.
      unfold dmE, dm_of. fold m. refine (proj2 (den_max_exact cf (map p_den (gm ps m)) (p_den p) (ps_dens_pos m) _ Hx)).
      apply in_map. unfold gm. apply filter_In. split; [exact Hp|apply Z.eqb_refl].
    Qed.
    (* exactness: the written beat of an event is the event's beat itself *)
    Lemma wbE_exact e : In e evs -> wbE e = bt (fst (fst e)).
    Proof. intro He. apply (proj2 (proj2 (wbE_bound e He))). apply (place_divides e He). Qed.

    Definition bcE (e : Q * Z * Z) : Q * Z := (bt (fst (fst e)), snd (fst e)).
    Lemma exact_cells : CELLS.
    Proof.
      unfold CELLS, ps. rewrite map_map. apply FOP_distinct_cells. apply FOP_map.
      assert (F: ForallOrdPairs (fun x y => ~ same_bc (bcE x) (bcE y)) evs).
      { apply (proj1 (FOP_map bcE (fun x y => ~ same_bc x y) evs)). apply distinct_bc_FOP. rewrite evs_eq in Hdist. exact Hdist. }
      apply (FOP_impl_in _ _ _ F). intros x y Hx Hy Hn E. apply Hn. rewrite !cellE_eq in E. unfold cellE in E. injection E as E1 E2 E3.
      split; unfold bcE; cbn [fst snd]; [|exact E3].
      rewrite <- (wbE_exact x Hx), <- (wbE_exact y Hy). unfold wbE, dmE. rewrite E1, E2. reflexivity.
    Qed.

    Lemma simple_seg_eqv ch (x : list (Q * Z)) : (forall n, In n x -> In (simple_ev ch n) evs) -> Forall2 note_eqv (wsimple ch x) (simple4 x).
    Proof.
      intro H. unfold wsimple, simple4. apply forall2_map_l. apply forall2_map_r. induction x as [|n x IH]; constructor.
      - specialize (H n (or_introl eq_refl)). unfold note_eqv. cbn [fst snd]. split; [|split; [|reflexivity]].
        + pose proof (ev_col _ H) as Hc. cbn [simple_ev fst snd] in Hc. lia.
        + rewrite (wbE_exact _ H). pose proof (time_bt _ (ev_in_os _ H)) as Ht. cbn [simple_ev fst snd] in Ht |- *. exact Ht.
      - apply IH. intros m Hm. apply H. right. exact Hm.
    Qed.
    Lemma long_seg_eqv hch (x : list (Q * Z * Q)) : (forall h, In h x -> In (head_ev hch h) heads /\ In (tail_ev 51 h) tails) ->
      Forall2 note_eqv (wlong hch x) (hold4 x).
    Proof.
      intro H. unfold wlong, hold4. apply forall2_map_l. apply forall2_map_r. induction x as [|h x IH]; constructor.
      - destruct (H h (or_introl eq_refl)) as [Hx Hy]. unfold note_eqv. cbn [fst snd].
        pose proof (ev_col _ (heads_in _ Hx)) as Hc. cbn [head_ev fst snd] in Hc.
        rewrite (wbE_exact _ (heads_in _ Hx)), (wbE_exact _ (tails_in _ Hy)).
        pose proof (time_bt _ (ev_in_os _ (heads_in _ Hx))) as T1. pose proof (time_bt _ (ev_in_os _ (tails_in _ Hy))) as T2.
        cbn [head_ev tail_ev fst snd] in T1, T2 |- *.
        split; [lia|]. split; [exact T1|]. rewrite Qred_correct, T1, T2, Qred_correct. ring.
      - apply IH. intros m Hm. apply H. right. exact Hm.
    Qed.

    Lemma wlist_eqv k : Forall2 note_eqv (wlist k) (chart_list c k).
    Proof.
      assert (I1: forall n, In n (c_hits c) -> In (simple_ev 49 n) evs) by (intros n Hn; unfold evs; apply in_or_app; left; apply in_map; exact Hn).
      assert (I2: forall n, In n (c_fakes c) -> In (simple_ev 70 n) evs) by (intros n Hn; unfold evs; do 5 (apply in_or_app; right); apply in_or_app; left; apply in_map; exact Hn).
      assert (I3: forall n, In n (c_keys c) -> In (simple_ev 75 n) evs) by (intros n Hn; unfold evs; do 6 (apply in_or_app; right); apply in_or_app; left; apply in_map; exact Hn).
      assert (I4: forall n, In n (c_lifts c) -> In (simple_ev 76 n) evs) by (intros n Hn; unfold evs; do 7 (apply in_or_app; right); apply in_or_app; left; apply in_map; exact Hn).
      assert (I5: forall n, In n (c_mines c) -> In (simple_ev 77 n) evs) by (intros n Hn; unfold evs; do 8 (apply in_or_app; right); apply in_map; exact Hn).
      assert (I6: forall h, In h (c_holds c) -> In (head_ev 50 h) heads /\ In (tail_ev 51 h) tails).
      { intros h Hh. split; [unfold heads|unfold tails]; apply in_or_app; left; apply in_map; exact Hh. }
      assert (I7: forall h, In h (c_rolls c) -> In (head_ev 52 h) heads /\ In (tail_ev 51 h) tails).
      { intros h Hh. split; [unfold heads|unfold tails]; apply in_or_app; right; apply in_map; exact Hh. }
      destruct k; cbn [wlist chart_list].
      - apply (simple_seg_eqv 49 _ I1).
      - apply (long_seg_eqv 50 _ I6).
      - apply (long_seg_eqv 52 _ I7).
      - apply (simple_seg_eqv 77 _ I5).
      - apply (simple_seg_eqv 76 _ I4).
      - apply (simple_seg_eqv 70 _ I2).
      - apply (simple_seg_eqv 75 _ I3).
    Qed.

    (* no two notes of one kind with the same column and time *)
    Lemma seg_keys_distinct {A} (ev : A -> Q * Z * Z) (f : A -> note4) (x : list A) :
      (forall a, fst (fst (f a)) = snd (fst (ev a)) /\ snd (fst (f a)) = fst (fst (ev a))) ->
      ForallOrdPairs (fun x y => ~ same_bc (bcE x) (bcE y)) (map ev x) -> ForallOrdPairs keys_differ (map f x).
    Proof.
      intros Hf F. apply FOP_map. apply (proj1 (FOP_map ev _ x)) in F.
      apply (FOP_impl_in _ _ _ F). intros a b _ _ Hn [E1 E2]. apply Hn. destruct (Hf a) as [A1 A2]. destruct (Hf b) as [B1 B2].
      unfold same_bc, bcE. cbn [fst snd]. rewrite <- A1, <- B1, <- A2, <- B2. split; [|exact E1].
      unfold bt. rewrite (spec_beat_comp init l _ _ E2). reflexivity.
    Qed.
    Lemma evs_bc_distinct : ForallOrdPairs (fun x y => ~ same_bc (bcE x) (bcE y)) evs.
    Proof. apply (proj1 (FOP_map bcE (fun x y => ~ same_bc x y) evs)). apply distinct_bc_FOP. rewrite evs_eq in Hdist. exact Hdist. Qed.
    Lemma chart_keys_distinct k : ForallOrdPairs keys_differ (chart_list c k).
    Proof.
      pose proof evs_bc_distinct as F. unfold evs in F.
      pose proof (FOP_app_l _ _ _ F) as F1. apply FOP_app_r in F.
      pose proof (FOP_app_l _ _ _ F) as F2. apply FOP_app_r in F. apply FOP_app_r in F.
      pose proof (FOP_app_l _ _ _ F) as F4. apply FOP_app_r in F. apply FOP_app_r in F.
      pose proof (FOP_app_l _ _ _ F) as F6. apply FOP_app_r in F.
      pose proof (FOP_app_l _ _ _ F) as F7. apply FOP_app_r in F.
      pose proof (FOP_app_l _ _ _ F) as F8. apply FOP_app_r in F.
      destruct k; cbn [chart_list]; unfold simple4, hold4.
      - apply (seg_keys_distinct (simple_ev 49) (fun n : Q * Z => (snd n, fst n, 0)) _ (fun a => conj eq_refl eq_refl) F1).
      - apply (seg_keys_distinct (head_ev 50) (fun n : Q * Z * Q => (snd (fst n), fst (fst n), snd n)) _ (fun a => conj eq_refl eq_refl) F2).
      - apply (seg_keys_distinct (head_ev 52) (fun n : Q * Z * Q => (snd (fst n), fst (fst n), snd n)) _ (fun a => conj eq_refl eq_refl) F4).
      - apply (seg_keys_distinct (simple_ev 77) (fun n : Q * Z => (snd n, fst n, 0)) _ (fun a => conj eq_refl eq_refl) F).
      - apply (seg_keys_distinct (simple_ev 76) (fun n : Q * Z => (snd n, fst n, 0)) _ (fun a => conj eq_refl eq_refl) F8).
      - apply (seg_keys_distinct (simple_ev 70) (fun n : Q * Z => (snd n, fst n, 0)) _ (fun a => conj eq_refl eq_refl) F6).
      - apply (seg_keys_distinct (simple_ev 75) (fun n : Q * Z => (snd n, fst n, 0)) _ (fun a => conj eq_refl eq_refl) F7).
    Qed.

    Theorem chart_thm :
      exists body, chart_body cf current c = Some body
        /\ (body = [] \/ (head_nows body /\ head_nows (rev body))) /\ forallb bodych body = true
        /\ exists op notes ns,
             denote_measures (match body with [] => [] | _ => split_on 44 body end) keys 0 time (repeat None (Z.to_nat keys)) [] [] = Some (op, notes, ns)
             /\ forallb (fun o : option (kind * Q) => match o with None => true | Some _ => false end) op = true
             /\ forall k, perm_eqv (dnotes_of k (rev notes)) (chart_list c k).
    Proof.
      destruct (chart_thm_gen exact_cells) as [body [B1 [B2 [B3 [op [notes [ns [D [Ho Hp]]]]]]]]].
      exists body. split; [exact B1|]. split; [exact B2|]. split; [exact B3|]. exists op, notes, ns. split; [exact D|]. split; [exact Ho|].
      intro k. exists (wlist k). split; [apply Hp|apply wlist_eqv].
    Qed.
    Definition chart_rows4 := chart_rows4_gen exact_cells.
  End ExactRegime.

  (* ================= the cap regime ================= *)
  Section CapRegime.
    Hypothesis Hcap_cells : distinct_cells (map (cell_of_placed cf (spec_placed cf init l c)) (spec_placed cf init l c)) = true.
    Lemma cap_cells : CELLS.
    Proof. unfold CELLS. rewrite <- ps_eq. exact Hcap_cells. Qed.

    Lemma time_cap w : time w == cap_time init l w.
    Proof.
      unfold time, beat_time, cap_time. rewrite Qred_correct.
      apply (time_of_eqv cf rows init l Hscript Htd script beat0 _ _ Hsc Hb0). split; reflexivity.
    Qed.
    Lemma cap_row e : In e evs -> cap_row_of init l (fst (fst e)) (wbE e).
    Proof. intro He. destruct (wbE_bound e He) as [A [B _]]. split; assumption. Qed.

    Lemma simple_seg_cap ch (x : list (Q * Z)) : (forall n, In n x -> In (simple_ev ch n) evs) -> Forall2 (cap_note_rel init l) (wsimple ch x) (simple4 x).
    Proof.
      intro H. unfold wsimple, simple4. apply forall2_map_l. apply forall2_map_r. induction x as [|n x IH]; constructor.
      - specialize (H n (or_introl eq_refl)). unfold cap_note_rel. cbn [fst snd]. split.
        + pose proof (ev_col _ H) as Hc. cbn [simple_ev fst snd] in Hc. lia.
        + exists (wbE (simple_ev ch n)). split; [apply (cap_row _ H)|]. split; [apply time_cap|left; split; reflexivity].
      - apply IH. intros m Hm. apply H. right. exact Hm.
    Qed.
    Lemma long_seg_cap hch (x : list (Q * Z * Q)) : (forall h, In h x -> In (head_ev hch h) heads /\ In (tail_ev 51 h) tails) ->
      Forall2 (cap_note_rel init l) (wlong hch x) (hold4 x).
    Proof.
      intro H. unfold wlong, hold4. apply forall2_map_l. apply forall2_map_r. induction x as [|h x IH]; constructor.
      - destruct (H h (or_introl eq_refl)) as [Hx Hy]. unfold cap_note_rel. cbn [fst snd].
        pose proof (ev_col _ (heads_in _ Hx)) as Hc. cbn [head_ev fst snd] in Hc. split; [lia|].
        exists (wbE (head_ev hch h)). split; [apply (cap_row _ (heads_in _ Hx))|]. split; [apply time_cap|right].
        exists (wbE (tail_ev 51 h)). split; [apply (cap_row _ (tails_in _ Hy))|]. rewrite Qred_correct, !time_cap. reflexivity.
      - apply IH. intros m Hm. apply H. right. exact Hm.
    Qed.
    Lemma wlist_cap k : Forall2 (cap_note_rel init l) (wlist k) (chart_list c k).
    Proof.
      assert (I1: forall n, In n (c_hits c) -> In (simple_ev 49 n) evs) by (intros n Hn; unfold evs; apply in_or_app; left; apply in_map; exact Hn).
      assert (I2: forall n, In n (c_fakes c) -> In (simple_ev 70 n) evs) by (intros n Hn; unfold evs; do 5 (apply in_or_app; right); apply in_or_app; left; apply in_map; exact Hn).
      assert (I3: forall n, In n (c_keys c) -> In (simple_ev 75 n) evs) by (intros n Hn; unfold evs; do 6 (apply in_or_app; right); apply in_or_app; left; apply in_map; exact Hn).
      assert (I4: forall n, In n (c_lifts c) -> In (simple_ev 76 n) evs) by (intros n Hn; unfold evs; do 7 (apply in_or_app; right); apply in_or_app; left; apply in_map; exact Hn).
      assert (I5: forall n, In n (c_mines c) -> In (simple_ev 77 n) evs) by (intros n Hn; unfold evs; do 8 (apply in_or_app; right); apply in_map; exact Hn).
      assert (I6: forall h, In h (c_holds c) -> In (head_ev 50 h) heads /\ In (tail_ev 51 h) tails).
      { intros h Hh. split; [unfold heads|unfold tails]; apply in_or_app; left; apply in_map; exact Hh. }
      assert (I7: forall h, In h (c_rolls c) -> In (head_ev 52 h) heads /\ In (tail_ev 51 h) tails).
      { intros h Hh. split; [unfold heads|unfold tails]; apply in_or_app; right; apply in_map; exact Hh. }
      destruct k; cbn [wlist chart_list].
      - apply (simple_seg_cap 49 _ I1).
      - apply (long_seg_cap 50 _ I6).
      - apply (long_seg_cap 52 _ I7).
      - apply (simple_seg_cap 77 _ I5).
      - apply (simple_seg_cap 76 _ I4).
      - apply (simple_seg_cap 70 _ I2).
      - apply (simple_seg_cap 75 _ I3).
    Qed.

    Theorem chart_thm_cap :
      exists body, chart_body cf current c = Some body
        /\ (body = [] \/ (head_nows body /\ head_nows (rev body))) /\ forallb bodych body = true
        /\ exists op notes ns,
             denote_measures (match body with [] => [] | _ => split_on 44 body end) keys 0 time (repeat None (Z.to_nat keys)) [] [] = Some (op, notes, ns)
             /\ forallb (fun o : option (kind * Q) => match o with None => true | Some _ => false end) op = true
             /\ forall k, exists a', Permutation (dnotes_of k (rev notes)) a' /\ Forall2 (cap_note_rel init l) a' (chart_list c k).
    Proof.
      destruct (chart_thm_gen cap_cells) as [body [B1 [B2 [B3 [op [notes [ns [D [Ho Hp]]]]]]]]].
      exists body. split; [exact B1|]. split; [exact B2|]. split; [exact B3|]. exists op, notes, ns. split; [exact D|]. split; [exact Ho|].
      intro k. exists (wlist k). split; [apply Hp|apply wlist_cap].
    Qed.
    Definition chart_rows4_cap := chart_rows4_gen cap_cells.
  End CapRegime.
End ChartThm.
