(* C02: lifting the C10 closed form (RederiveProofs.offsets_on_grid_b) to the times of the objects the reader returns:
   every object of read_notes sits at Integrate.time_of of the Snap of its row, and every hold length is the difference
   of the times of its tail and head Snaps. *)
From Coq Require Import String ZArith QArith Qround Qabs List Bool Lia Lqa Morphisms.
From RV Require Import Base.PyNum Timing.Snapper Timing.Snap Timing.TimingMap Timing.Reseat Timing.Integrate Timing.Domain
  Formats.SMText Formats.SM Formats.SMSpec Proofs.SnapperProofs Proofs.RederiveProofs Proofs.SMProofs.
Import ListNotations.
Open Scope Q_scope.

(* ---- time_of does not distinguish Snaps that Snap.__eq__ identifies ---- *)
Lemma Qlt_bool_comp_r x a b : a == b -> Qlt_bool x a = Qlt_bool x b.
Proof. intro E. unfold Qlt_bool. rewrite E. reflexivity. Qed.
Lemma Qeq_bool_comp_r x a b : a == b -> Qeq_bool x a = Qeq_bool x b.
Proof. intro E. rewrite E. reflexivity. Qed.

Lemma snap_eq_parts a b : snap_eq a b = true -> s_m a = s_m b /\ s_b a == s_b b.
Proof.
  unfold snap_eq. intro H. apply andb_true_iff in H. destruct H as [H1 H2].
  split. apply Z.eqb_eq; exact H1. apply Qeq_bool_iff; exact H2.
Qed.

Lemma snap_le_comp_r x a b : snap_eq a b = true -> snap_le x a = snap_le x b.
Proof.
  intro H. destruct (snap_eq_parts a b H) as [Em Eb]. unfold snap_le, snap_lt, snap_eq.
  rewrite Em, (Qlt_bool_comp_r _ _ _ Eb), (Qeq_bool_comp_r _ _ _ Eb). reflexivity.
Qed.
Lemma seg_beats_comp_r met x a b : snap_eq a b = true -> seg_beats met x a == seg_beats met x b.
Proof. intro H. destruct (snap_eq_parts a b H) as [Em Eb]. unfold seg_beats. rewrite Em, Eb. reflexivity. Qed.

Lemma time_of_go_comp rest : forall t0 cur a b, snap_eq a b = true -> time_of_go t0 cur rest a == time_of_go t0 cur rest b.
Proof.
  induction rest as [|nxt rest IH]; intros t0 cur a b H; cbn [time_of_go].
  - rewrite (seg_beats_comp_r _ _ a b H). reflexivity.
  - rewrite (snap_le_comp_r (bs_snap nxt) a b H). destruct (snap_le (bs_snap nxt) b).
    + apply IH. exact H.
    + rewrite (seg_beats_comp_r _ _ a b H). reflexivity.
Qed.
Lemma time_of_comp init l a b : snap_eq a b = true -> time_of init l a == time_of init l b.
Proof. destruct l; [reflexivity|]. apply time_of_go_comp. Qed.

(* ---- generic list facts ---- *)
Lemma map_opt_in {A B} (f : A -> option B) l r y : map_opt f l = Some r -> In y r -> exists x, In x l /\ f x = Some y.
Proof.
  revert r. induction l as [|a l IH]; intros r H Hy; simpl in H.
  - inversion H; subst. destruct Hy.
  - destruct (f a) eqn:Fa; try discriminate. destruct (map_opt f l) eqn:E; try discriminate.
    inversion H; subst. destruct Hy as [<-|Hy].
    + exists a. split; [left; reflexivity|exact Fa].
    + destruct (IH _ eq_refl Hy) as (x & Hx & Fx). exists x. split; [right; exact Hx|exact Fx].
Qed.

(* a lookup in combine qs os returns the value paired with some query that Snap.__eq__ identifies with the key *)
Lemma lookup_combine (R : snap -> Q -> Prop) qs os s o :
  Forall2 R qs os -> lookup_snap s (combine qs os) = Some o -> exists q, In q qs /\ snap_eq q s = true /\ R q o.
Proof.
  induction 1 as [|q r qs os Hr _ IH]; cbn [combine lookup_snap]; intro H; [discriminate|].
  destruct (snap_eq q s) eqn:E.
  - inversion H; subst. exists q. split; [left; reflexivity|]. split; [exact E|exact Hr].
  - destruct (IH H) as (q' & Hin & E' & Hr'). exists q'. split; [right; exact Hin|]. split; assumption.
Qed.

Section ReadTimes.
Variable cf : smconf.
Hypothesis Hok : table_ok (1 # 96) (k_tbl cf) = true.

(* scripts in the C10 domain are strictly increasing, so from_bcs's sort leaves them alone *)
Lemma domain_sorted l qs : domainb (k_tbl cf) l qs = true -> sort_by bcs_lt l = l.
Proof.
  destruct l as [|c0 rest]; [discriminate|]. unfold domainb. intro H.
  do 4 (apply andb_true_iff in H; destruct H as [H ?]).
  apply sort_by_adj_ok. eapply script_adj_ok. eapply script_okb_sound. exact H1.
Qed.

Lemma from_bcs_of_sorted init bcss : sort_by bcs_lt (sort_by bcs_lt bcss) = sort_by bcs_lt bcss ->
  from_bcs init (sort_by bcs_lt bcss) = from_bcs init bcss.
Proof. intro H. unfold from_bcs. rewrite H. reflexivity. Qed.

Definition st0 : nst :=
  mkNst [] (repeat [] (Z.to_nat (k_max_keys cf))) (repeat [] (Z.to_nat (k_max_keys cf))).
Definition queries (st : nst) : list snap :=
  map (fun e : kind * Z * snap => snd e) (rev (n_simple st)) ++ hold_snaps (n_holds st) ++ hold_snaps (n_rolls st).

Definition simple_at (init : Q) (l : list bcs) (st : nst) (k : kind) (out : list (Q * Z)) : Prop :=
  forall o c, In (o, c) out -> exists s, In (k, c, s) (rev (n_simple st)) /\ o == time_of init l s.
Definition holds_at (init : Q) (l : list bcs) (lists : list (list hentry)) (out : list (Q * Z * Q)) : Prop :=
  forall o c len, In (o, c, len) out ->
    exists i hl h t, nth_error lists i = Some hl /\ c = Z.of_nat i /\ In (h, Some t) hl
                     /\ o == time_of init l h /\ len == time_of init l t - time_of init l h.

Lemma expand_simple_at init l st k os out :
  Forall2 (fun q r => r == time_of init l q) (queries st) os ->
  expand_simple (combine (queries st) os) k (rev (n_simple st)) (Z.to_nat (k_max_keys cf)) = Some out ->
  simple_at init l st k out.
Proof.
  intros HF H o c Hin. unfold expand_simple in H.
  destruct (map_opt_in _ _ _ _ H Hin) as (e & He & Fe).
  apply in_flat_map in He. destruct He as (col & _ & He). apply filter_In in He. destruct He as [He Hk].
  apply andb_true_iff in Hk. destruct Hk as [Hk Hc].
  destruct (lookup_snap (snd e) (combine (queries st) os)) as [o'|] eqn:L; try discriminate.
  inversion Fe; subst o' c.
  destruct (lookup_combine _ _ _ _ _ HF L) as (q & _ & Eq & Rq).
  destruct e as [[k' c'] s]. cbn [fst snd] in *. exists s. split.
  - assert (k' = k) by (destruct k', k; simpl in Hk; congruence). subst k'. exact He.
  - rewrite Rq. apply time_of_comp. exact Eq.
Qed.

Lemma expand_hold_at init l qs os lists out :
  Forall2 (fun q r => r == time_of init l q) qs os ->
  expand_hold (combine qs os) lists = Some out -> holds_at init l lists out.
Proof.
  intros HF H o c len Hin. unfold expand_hold in H.
  destruct (map_opt_in _ _ _ _ H Hin) as (ce & Hce & Fe).
  apply in_flat_map in Hce. destruct Hce as ([i hl] & Hcl & Hce). cbn [fst snd] in Hce.
  apply in_map_iff in Hce. destruct Hce as (e & <- & He). cbn [fst snd] in Fe.
  destruct e as [h [t|]]; cbn [fst snd] in Fe; try discriminate.
  destruct (lookup_snap h (combine qs os)) as [ho|] eqn:Lh; try discriminate.
  destruct (lookup_snap t (combine qs os)) as [to|] eqn:Lt; try discriminate.
  remember (Qred (to - ho)) as lv eqn:Elv.
  inversion Fe; subst o c len.
  destruct (lookup_combine _ _ _ _ _ HF Lh) as (qh & _ & Eh & Rh).
  destruct (lookup_combine _ _ _ _ _ HF Lt) as (qt & _ & Et & Rt).
  exists i, hl, h, t. split; [|split; [reflexivity|split; [exact He|]]].
  - assert (G : forall (ll : list (list hentry)) a, In (i, hl) (combine (seq a (length ll)) ll) -> nth_error ll (i - a) = Some hl /\ (a <= i)%nat).
    { clear. induction ll as [|x ll IH]; intros a H; [destruct H|]. cbn [length seq combine] in H. destruct H as [H|H].
      - inversion H; subst. rewrite Nat.sub_diag. split; [reflexivity|lia].
      - destruct (IH (S a) H) as [N L]. split; [|lia]. replace (i - a)%nat with (S (i - S a)) by lia. exact N. }
    destruct (G lists 0%nat Hcl) as [N _]. rewrite Nat.sub_0_r in N. exact N.
  - split.
    + rewrite Rh. apply time_of_comp. exact Eh.
    + transitivity (to - ho); [rewrite Elv; apply Qred_correct|]. rewrite Rh, Rt, (time_of_comp init l qh h Eh), (time_of_comp init l qt t Et). reflexivity.
Qed.

(* THE lifting theorem: with the file's tempo script in the C10 domain (head at beat 0, strictly increasing, pairwise on
   the snap grid — implied by the 1/48 grid of C02's quantifier) every object returned by _read_notes sits at the
   integration time of the Snap of its row, and every hold/roll length is tail time - head time *)
Theorem read_notes_times data init bcss n :
  read_notes cf data (Some init) (Some bcss) true = Some n ->
  exists st, read_measures cf st0 0 (split_on 44 data) = Some st /\
    (let l := sort_by bcs_lt bcss in
     domainb (k_tbl cf) l (queries st) = true ->
     simple_at init l st KHit (o_hits n) /\ simple_at init l st KMine (o_mines n) /\ simple_at init l st KLift (o_lifts n)
     /\ simple_at init l st KFake (o_fakes n) /\ simple_at init l st KKey (o_keys n)
     /\ holds_at init l (n_holds st) (o_holds n) /\ holds_at init l (n_rolls st) (o_rolls n)).
Proof.
  unfold read_notes. intro H.
  destruct (from_bcs init bcss) as [bcos|] eqn:FB; try discriminate.
  destruct (from_bcs_reseat init bcss) as [rb|]; try discriminate.
  fold st0 in H. destruct (read_measures cf st0 0 (split_on 44 data)) as [st|] eqn:RM; try discriminate.
  exists st. split; [reflexivity|]. set (l := sort_by bcs_lt bcss). intros Hdom. fold (queries st) in H.
  destruct (tm_offsets (k_tbl cf) bcos (queries st)) as [os|] eqn:TO; try discriminate.
  destruct (negb (all_closed (n_holds st) && all_closed (n_rolls st))); try discriminate.
  cbn [negb] in H.
  destruct (offsets_on_grid_b (k_tbl cf) Hok init l (queries st) Hdom) as (bcos' & res & FB' & TO' & HF).
  assert (Es : sort_by bcs_lt l = l) by (apply (domain_sorted l (queries st) Hdom)).
  unfold l in FB'. rewrite (from_bcs_of_sorted init bcss Es) in FB'. rewrite FB in FB'. inversion FB'; subst bcos'.
  rewrite TO in TO'. inversion TO'; subst res.
  destruct (expand_simple _ KHit _ _) as [hits|] eqn:E1; try discriminate.
  destruct (expand_hold _ (n_holds st)) as [holds|] eqn:E2; try discriminate.
  destruct (expand_simple _ KFake _ _) as [fakes|] eqn:E3; try discriminate.
  destruct (expand_simple _ KLift _ _) as [lifts|] eqn:E4; try discriminate.
  destruct (expand_simple _ KKey _ _) as [keys|] eqn:E5; try discriminate.
  destruct (expand_simple _ KMine _ _) as [mines|] eqn:E6; try discriminate.
  destruct (expand_hold _ (n_rolls st)) as [rolls|] eqn:E7; try discriminate.
  inversion H; subst n; cbn [o_hits o_mines o_lifts o_fakes o_keys o_holds o_rolls].
  repeat split.
  - exact (expand_simple_at init l st KHit os hits HF E1).
  - exact (expand_simple_at init l st KMine os mines HF E6).
  - exact (expand_simple_at init l st KLift os lifts HF E4).
  - exact (expand_simple_at init l st KFake os fakes HF E3).
  - exact (expand_simple_at init l st KKey os keys HF E5).
  - exact (expand_hold_at init l _ os _ holds HF E2).
  - exact (expand_hold_at init l _ os _ rolls HF E7).
Qed.
End ReadTimes.
