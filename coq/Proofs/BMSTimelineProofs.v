(* C05 for C09: the bound of bms_write_denotes (within 1/192 beat of the tempo in force, exact on the grid: time_rt) as
   TIMELINE closeness (Formats/Timeline.v): the timeline of what the written file denotes is close to the timeline of the
   chart, every time within res_of FBms = 1/192 beat at the local tempo of the chart's own tempo points
   (bms_write_timeline, bms_write_timeline_any_order). *)
From Coq Require Import ZArith QArith Qround Qabs List Bool Lia Lqa Sorting.Permutation.
From RV Require Import Base.PyNum Timing.Snapper Timing.Snap Timing.TimingMap Timing.Integrate Timing.Domain Timing.Domain2
  Formats.BMSText Formats.BMS Formats.BMSSpec Formats.Timeline Proofs.SnapperProofs Proofs.TimingProofs Proofs.RederiveProofs
  Proofs.TimingProofs2 Proofs.BMSProofs Proofs.BMSWriteTimingProofs Proofs.BMSWriteFinalProofs Proofs.BMSRoundTripProofs
  Proofs.BMSWriteAnyOrderProofs.
Import ListNotations.
Open Scope Q_scope.

(* the timeline of an in-memory BMS chart; the tempo points in time order *)
Definition tl_of_wchart (c : wchart) : timeline :=
  mkTL (map (fun h => mkTN false (h_col h) (h_off h) 0) (w_hits c)
        ++ map (fun h => mkTN true (ho_col h) (ho_off h) (ho_len h)) (w_holds c))
       (map (fun b => (bo_off b, bo_bpm b)) (sort_by bco_lt (w_bpms c))).

Lemma Qle_bool_wd a b c d : a == c -> b == d -> Qle_bool a b = Qle_bool c d.
Proof.
  intros E1 E2. destruct (Qle_bool a b) eqn:X; symmetry.
  - apply Qle_bool_iff. apply Qle_bool_iff in X. rewrite <- E1, <- E2. exact X.
  - apply Qle_bool_false. apply Qle_bool_false in X. rewrite <- E1, <- E2. exact X.
Qed.

(* bl_at looks at its time argument through comparisons only *)
Lemma bl_go_comp l : forall cur t t', t == t' -> bl_go cur l t = bl_go cur l t'.
Proof.
  induction l as [|p l IH]; intros cur t t' E; [reflexivity|]. cbn [bl_go].
  rewrite (Qle_bool_wd (fst p) t (fst p) t' (Qeq_refl _) E). destruct (Qle_bool (fst p) t'); [apply IH; exact E|reflexivity].
Qed.
Lemma bl_at_comp tempo t t' : t == t' -> bl_at tempo t = bl_at tempo t'.
Proof. intro E. destruct tempo as [|p r]; [reflexivity|]. apply bl_go_comp. exact E. Qed.
Lemma bl_near_comp tempo t t' : t == t' -> bl_near tempo t = bl_near tempo t'.
Proof.
  intro E. unfold bl_near. rewrite (bl_at_comp tempo t t' E).
  rewrite (bl_at_comp tempo (t + bl_at tempo t' / 96) (t' + bl_at tempo t' / 96)) by (rewrite E; reflexivity).
  rewrite (bl_at_comp tempo (t - bl_at tempo t' / 96) (t' - bl_at tempo t' / 96)) by (rewrite E; reflexivity). reflexivity.
Qed.
Lemma Qmax'_ge_l a b : a <= Qmax' a b.
Proof. unfold Qmax'. destruct (Qle_bool a b) eqn:E; [apply Qle_bool_iff; exact E|lra]. Qed.
Lemma bl_near_ge tempo t : bl_at tempo t <= bl_near tempo t.
Proof. unfold bl_near. apply Qmax'_ge_l. Qed.

(* the integrated change times of a script are the offsets of its millisecond form *)
Lemma linked_change_times rest : forall brest off t0 p, t0 == off -> linked off p rest brest ->
  Forall2 (fun t b => t == bo_off b) (change_times_go t0 p rest) brest.
Proof.
  induction rest as [|c rest IH]; intros brest off t0 p E L; destruct brest as [|b brest]; cbn [linked] in L; try contradiction; [constructor|].
  destruct L as [_ [_ [Lo Ll]]]. cbn [change_times_go]. constructor.
  - rewrite Lo, E. reflexivity.
  - apply (IH brest (bo_off b)); [rewrite Lo, E; reflexivity|exact Ll].
Qed.

(* the beat length in force, read off the tempo points, is the beat length of the change active in the script *)
Lemma bl_go_active o : forall rest brest cts cur,
  Forall2 (fun t b => t == bo_off b) cts brest -> Forall2 (fun cc b => bo_bpm b = bs_bpm cc) rest brest ->
  bl_go (beat_len (bs_bpm (snd cur))) (map (fun b => (bo_off b, bo_bpm b)) brest) o
  = beat_len (bs_bpm (snd (active_by_time cur (combine cts rest) o))).
Proof.
  induction rest as [|cc rest IH]; intros brest cts cur F1 F2; inversion F2 as [|? b ? br Eb F2']; subst.
  - inversion F1; subst. reflexivity.
  - inversion F1 as [|t ? ct ? Et F1']; subst. cbn [map bl_go combine active_by_time fst snd].
    rewrite (Qle_bool_wd (bo_off b) o t o (Qeq_sym _ _ Et) (Qeq_refl _)). destruct (Qle_bool t o); [|reflexivity].
    rewrite Eb. change (60000 / bs_bpm cc) with (beat_len (bs_bpm (snd (t, cc)))). apply (IH br ct (t, cc) F1' F2').
Qed.

Lemma bl_near_res_comp_gen tempo t t' : t == t' -> res_of FBms tempo t = res_of FBms tempo t'.
Proof. intro E. unfold res_of. rewrite (bl_near_comp tempo t t' E). reflexivity. Qed.

Section Timeline.
  Variable tbl : list Q.
  Hypothesis Hok : table_ok (1 # 96) tbl = true.

  Lemma bl_at_active l S o : domainb tbl l [] = true -> from_bcs 0 l = Some S ->
    bl_at (map (fun b => (bo_off b, bo_bpm b)) S) o = beat_len (bs_bpm (snd (active_at_time 0 l o)))
    /\ 0 < beat_len (bs_bpm (snd (active_at_time 0 l o))).
  Proof.
    intros Hd Hf. destruct (domainb_nil_sound tbl l Hd) as [c0 [rest [El [H0 [Hm0 [Hb0 Hs]]]]]]. subst l.
    destruct (script_pairs tbl Hok 0 c0 rest H0 Hm0 Hb0 Hs) as [brest [c0' [bcss' [E1 [_ [_ [_ [_ [E6 _]]]]]]]]]. cbv zeta in *.
    rewrite Hf in E1. inversion E1; subst S. clear E1.
    assert (Lk : forall rest brest off p, linked off p rest brest -> Forall2 (fun cc b => bo_bpm b = bs_bpm cc) rest brest).
    { induction rest0 as [|x r IH]; intros br off p L; destruct br as [|y br]; cbn [linked] in L; try contradiction; constructor.
      - destruct L as [A _]. exact A.
      - destruct L as [_ [_ [_ L']]]. eapply IH; exact L'. }
    split.
    - unfold active_at_time. cbn [change_times combine map bl_at bo_off bo_bpm fst snd].
      change (60000 / bs_bpm c0) with (beat_len (bs_bpm (snd (0, c0)))).
      apply bl_go_active; [apply (linked_change_times rest brest 0 0 c0 (Qeq_refl _) E6)|apply (Lk rest brest 0 c0 E6)].
    - assert (I : In (snd (active_at_time 0 (c0 :: rest) o)) (c0 :: rest)).
      { unfold active_at_time. cbn [change_times combine].
        assert (G : forall cur rs, In (active_by_time cur rs o) (cur :: rs)).
        { intros cur rs. revert cur. induction rs as [|n rs IH]; intro cur; [left; reflexivity|]. cbn [active_by_time].
          destruct (Qle_bool (fst n) o); [right; apply IH|left; reflexivity]. }
        destruct (G (0, c0) (combine (change_times_go 0 c0 rest) rest)) as [<-|I]; [left; reflexivity|]. right.
        destruct (active_by_time _ _ o) as [t cc]. apply in_combine_r in I. exact I. }
      assert (Nall : forall cc, In cc (c0 :: rest) -> node_ok cc).
      { intros cc [<-|Ic]; [exact H0|]. clear - Hs Ic. revert c0 Hs. induction rest as [|x r IH]; intros p Hs; [contradiction|].
        destruct Hs as [[_ [Nx _]] Hs']. destruct Ic as [<-|Ic]; [exact Nx|]. apply (IH Ic x Hs'). }
      pose proof (Nall _ I) as Nc.
      destruct Nc as [[Hbpm _] _]. apply beat_len_pos. exact Hbpm.
  Qed.

  (* time_rt as a bound at the format's resolution *)
  Lemma time_rt_res l S o t : domainb tbl l [] = true -> from_bcs 0 l = Some S -> time_rt tbl l o t ->
    Qabs (t - o) <= res_of FBms (map (fun b => (bo_off b, bo_bpm b)) S) o.
  Proof.
    intros Hd Hf [A _]. destruct (bl_at_active l S o Hd Hf) as [E P]. unfold res_of.
    pose proof (bl_near_ge (map (fun b => (bo_off b, bo_bpm b)) S) o) as G. rewrite E in G.
    apply Qle_shift_div_l; [lra|]. lra.
  Qed.
  Lemma res_nonneg l S o : domainb tbl l [] = true -> from_bcs 0 l = Some S ->
    0 <= res_of FBms (map (fun b => (bo_off b, bo_bpm b)) S) o.
  Proof.
    intros Hd Hf. destruct (bl_at_active l S o Hd Hf) as [E P]. unfold res_of.
    pose proof (bl_near_ge (map (fun b => (bo_off b, bo_bpm b)) S) o) as G. rewrite E in G.
    apply Qle_shift_div_l; [lra|]. lra.
  Qed.

  (* from the conclusion of the write theorems to timeline closeness *)
  Lemma written_timeline dflt c l d S :
    domainb tbl l [] = true -> from_bcs 0 l = Some S -> S = sort_by bco_lt (w_bpms c) ->
    (exists hs, Permutation hs (d_hits d)
       /\ Forall2 (fun h s => sh_col s = h_col h /\ time_rt tbl l (h_off h) (sh_time s)
                              /\ sh_sample s = sample_of (w_samples c) (sample_id c dflt (h_sample h))) (w_hits c) hs) ->
    (exists ls, Permutation ls (d_holds d)
       /\ Forall2 (fun h s => sl_col s = ho_col h /\ time_rt tbl l (ho_off h) (sl_time s)
                              /\ time_rt tbl l (Qred (ho_off h + ho_len h)) (sl_time s + sl_len s)
                              /\ sl_sample s = sample_of (w_samples c) (sample_id c dflt (ho_sample h))) (w_holds c) ls) ->
    Forall2 (fun b tb => fst tb == bo_off b /\ snd tb = bo_bpm b) S (d_tempo d) ->
    timeline_close_by (res_of FBms (tl_tempo (tl_of_wchart c))) 0 (tl_of_bms d) (tl_of_wchart c).
  Proof.
    intros Hd Hf ES [hs [Ph Fh]] [ls [Pl Fl]] Ft.
    unfold tl_of_wchart. cbn [tl_tempo tl_notes]. rewrite <- ES. set (tempo := map (fun b => (bo_off b, bo_bpm b)) S).
    split.
    - (* notes *)
      destruct (forall2_perm_l (fun s h => sh_col s = h_col h /\ time_rt tbl l (h_off h) (sh_time s)) hs (d_hits d) (Permutation_sym Ph) (w_hits c)) as [hits' [Ph' Fh']].
      { clear - Fh. induction Fh as [|h s hl sl [A [B _]] _ IH]; constructor; auto. }
      destruct (forall2_perm_l (fun s h => sl_col s = ho_col h /\ time_rt tbl l (ho_off h) (sl_time s)
                                           /\ time_rt tbl l (Qred (ho_off h + ho_len h)) (sl_time s + sl_len s)) ls (d_holds d) (Permutation_sym Pl) (w_holds c)) as [holds' [Pl' Fl']].
      { clear - Fl. induction Fl as [|h s hl sl [A [B [C _]]] _ IH]; constructor; auto. }
      exists (map (fun h => mkTN false (h_col h) (h_off h) 0) hits' ++ map (fun h => mkTN true (ho_col h) (ho_off h) (ho_len h)) holds').
      split.
      + apply Permutation_app; apply Permutation_map; apply Permutation_sym; assumption.
      + unfold tl_of_bms. cbn [tl_notes]. apply Forall2_app.
        * clear - Fh' Hd Hf Hok. induction Fh' as [|s h sl hl [A B] _ IH]; cbn [map]; constructor; [|exact IH].
          unfold note_close_by, tn_end. cbn [tn_hold tn_col tn_time tn_len]. split; [reflexivity|]. split; [exact A|].
          pose proof (time_rt_res l S (h_off h) (sh_time s) Hd Hf B) as R. split; [exact R|].
          rewrite (bl_near_res_comp_gen _ (h_off h + 0) (h_off h)) by ring.
          assert (X : sh_time s + 0 - (h_off h + 0) == sh_time s - h_off h) by ring. rewrite (Qabs_wd _ _ X). exact R.
        * clear - Fl' Hd Hf Hok. induction Fl' as [|s h sl hl [A [B C]] _ IH]; cbn [map]; constructor; [|exact IH].
          unfold note_close_by, tn_end. cbn [tn_hold tn_col tn_time tn_len]. split; [reflexivity|]. split; [exact A|].
          split; [apply (time_rt_res l S _ _ Hd Hf B)|].
          pose proof (time_rt_res l S _ _ Hd Hf C) as R.
          rewrite (bl_near_res_comp_gen _ (ho_off h + ho_len h) (Qred (ho_off h + ho_len h))) by (rewrite Qred_correct; reflexivity).
          assert (X : sl_time s + sl_len s - (ho_off h + ho_len h) == sl_time s + sl_len s - Qred (ho_off h + ho_len h)) by (rewrite Qred_correct; reflexivity).
          rewrite (Qabs_wd _ _ X). exact R.
    - (* tempo points *)
      exists tempo. split; [apply Permutation_refl|]. unfold tl_of_bms. cbn [tl_tempo]. unfold tempo.
      clear - Ft Hd Hf Hok. revert Ft. generalize (d_tempo d). generalize (res_nonneg l S). intro Rn.
      assert (G : forall S' tb, Forall2 (fun b t => fst t == bo_off b /\ snd t = bo_bpm b) S' tb ->
                  Forall2 (tempo_close_by (res_of FBms (map (fun b => (bo_off b, bo_bpm b)) S)) 0) tb (map (fun b => (bo_off b, bo_bpm b)) S')).
      { induction 1 as [|b t S' tb [A B] _ IH]; cbn [map]; constructor; [|exact IH].
        unfold tempo_close_by. cbn [fst snd]. split.
        - assert (X : fst t - bo_off b == 0) by (rewrite A; ring). rewrite (Qabs_wd _ _ X). cbn. apply Rn; assumption.
        - rewrite B. assert (X : bo_bpm b - bo_bpm b == 0) by ring. rewrite (Qabs_wd _ _ X). cbn. lra. }
      intros tb Ft. apply G. exact Ft.
  Qed.

  (* bms_write_timeline: the file written for a chart of write_dom denotes a timeline within the BMS resolution (1/192 beat
     at the local tempo; tempo points exactly) of the chart's timeline *)
  Theorem bms_write_timeline (mk : Z) (lay : layout) (dflt : text) (c : wchart) (r : Q -> text) :
    write_dom tbl mk lay dflt c = true -> (forall q, parse_decimal (r q) <> None) ->
    exists ls l d, bms_write tbl lay dflt c = Some ls /\ wscript tbl c = Some l
      /\ bms_denote lay (map (render_with r) ls) = Some d /\ written_denotes tbl dflt c l d
      /\ timeline_close_by (res_of FBms (tl_tempo (tl_of_wchart c))) 0 (tl_of_bms d) (tl_of_wchart c).
  Proof.
    intros Hd Hr. destruct (bms_write_denotes tbl Hok mk lay dflt c r Hd Hr) as [ls [l [d [E1 [E2 [E3 E4]]]]]].
    exists ls, l, d. repeat (split; [assumption|]).
    destruct (write_dom_unpack tbl mk lay dflt c Hd) as [l' [b0 [rest [sh [sa [st [sb [Ew D]]]]]]]].
    rewrite E2 in Ew. inversion Ew; subst l'.
    destruct E4 as [Hh [Hl [Ht _]]].
    apply (written_timeline dflt c l d (w_bpms c)); auto.
    - apply (wd_dom _ _ _ _ _ _ _ _ _ _ _ _ D).
    - apply (wd_from _ _ _ _ _ _ _ _ _ _ _ _ D).
    - symmetry. apply (wd_sorted _ _ _ _ _ _ _ _ _ _ _ _ D).
  Qed.

  (* the same for tempo rows in any order *)
  Theorem bms_write_timeline_any_order (mk : Z) (lay : layout) (dflt : text) (c : wchart) (r : Q -> text) :
    write_dom_any tbl mk lay dflt c = true -> (forall q, parse_decimal (r q) <> None) ->
    exists ls l d, bms_write tbl lay dflt c = Some ls /\ wscript tbl c = Some l
      /\ bms_denote lay (map (render_with r) ls) = Some d /\ written_denotes_any tbl dflt c l d
      /\ timeline_close_by (res_of FBms (tl_tempo (tl_of_wchart c))) 0 (tl_of_bms d) (tl_of_wchart c).
  Proof.
    intros Hd Hr. destruct (bms_write_denotes_any_order tbl Hok mk lay dflt c r Hd Hr) as [ls [l [d [E1 [E2 [E3 [E4 _]]]]]]].
    exists ls, l, d. repeat (split; [assumption|]).
    unfold write_dom_any in Hd.
    destruct (write_dom_unpack tbl mk lay dflt (time_ordered c) Hd) as [l' [b0 [rest [sh [sa [st [sb [Ew D]]]]]]]].
    pose proof (wd_sorted _ _ _ _ _ _ _ _ _ _ _ _ D) as Ss. unfold time_ordered in Ss. cbn [w_bpms with_bpms] in Ss.
    assert (El : l' = l).
    { unfold wscript, time_ordered in Ew. cbn [w_bpms with_bpms] in Ew. rewrite Ss in Ew. unfold wscript in E2. congruence. }
    subst l'. destruct E4 as [Hh [Hl [Ht _]]].
    apply (written_timeline dflt c l d (sort_by bco_lt (w_bpms c))); auto.
    - apply (wd_dom _ _ _ _ _ _ _ _ _ _ _ _ D).
    - apply (wd_from _ _ _ _ _ _ _ _ _ _ _ _ D).
  Qed.
End Timeline.
