(* C03 whole-file writer theorem, part 6: the file.  Every exact rendering of the tokens SMMapSet.write produces for a
   mapset in the exact domain is a well-formed .sm text whose denotation is the mapset: header fields, and for every
   chart, in order, its header and exactly its objects. *)
From Coq Require Import String ZArith QArith Qround Qabs List Bool Lia Lqa Sorting.Sorted Sorting.Permutation.
From RV Require Import Base.PyNum Timing.Snapper Timing.Snap Timing.TimingMap Timing.Reseat Timing.Integrate
  Timing.Domain Timing.Domain2 Formats.SMText Formats.SM Formats.SMSpec Formats.SMWriteDom
  Proofs.SnapperProofs Proofs.TimingProofs Proofs.RederiveProofs Proofs.TimingProofs2
  Proofs.SMProofs Proofs.SMWriteProofs Proofs.SMWriteWholeRun Proofs.SMWriteWholeText Proofs.SMWriteWholeTime Proofs.SMWriteWholeGrid
  Proofs.SMWriteWholeChart Proofs.SMCanon.
Import ListNotations.
Open Scope Q_scope.

(* ---------------------------------------------------------------- items whose value may start with blanks *)
Definition item_ok' (it : text * text * text * text) : Prop :=
  let '(w, tag, v, w2) := it in
  ws_all w = true /\ ws_all w2 = true /\ ~ In 59%Z tag /\ ~ In 59%Z v /\ ~ In 58%Z tag /\ head_nows (rev v).
Lemma ends_okb_item' tag v : head_nows (rev v) -> ends_okb ((35%Z :: tag) ++ 58%Z :: v) = true.
Proof.
  intro Hl. apply ends_okb_spec. split; [reflexivity|].
  rewrite rev_app_distr. cbn [rev]. destruct (rev v) as [|y r]; [reflexivity|exact Hl].
Qed.
Lemma items_go_text' its tail : Forall item_ok' its -> ws_all tail = true ->
  items_go (split_on 59 (items_text its tail))
  = Some (map (fun it : text * text * text * text => let '(w, tag, v, w2) := it in (35%Z :: tag, v)) its).
Proof.
  intros F Ht. induction F as [|it its Hit F IH].
  - cbn [items_text fold_right map]. rewrite split_on_no_sep by (apply ws_all_not_in; [exact Ht|reflexivity]).
    cbn [items_go]. rewrite strip_ws by exact Ht. reflexivity.
  - destruct it as [[[w tag] v] w2]. destruct Hit as [Hw [Hw2 [Nt [Nv [Ct Ev]]]]].
    change (items_text ((w, tag, v, w2) :: its) tail)
      with (w ++ (35%Z :: tag) ++ 58%Z :: v ++ w2 ++ 59%Z :: items_text its tail).
    replace (w ++ (35%Z :: tag) ++ 58%Z :: v ++ w2 ++ 59%Z :: items_text its tail)
      with ((w ++ ((35%Z :: tag) ++ 58%Z :: v) ++ w2) ++ 59%Z :: items_text its tail)
      by (rewrite <- !app_assoc; cbn [app]; rewrite <- ?app_assoc; reflexivity).
    rewrite split_on_app.
    2:{ intro I. apply in_app_or in I. destruct I as [I|I]; [exact (ws_all_not_in w 59%Z Hw eq_refl I)|].
        apply in_app_or in I. destruct I as [I|I]; [|exact (ws_all_not_in w2 59%Z Hw2 eq_refl I)].
        apply in_app_or in I. destruct I as [[I|I]|[I|I]]; [discriminate|exact (Nt I)|discriminate|exact (Nv I)]. }
    pose proof (split_on_nonempty 59 (items_text its tail)) as NE.
    destruct (split_on 59 (items_text its tail)) as [|p r] eqn:S; [congruence|].
    cbn [items_go]. rewrite strip_ends by (assumption || apply ends_okb_item'; assumption).
    cbn [items_go] in IH. cbn [app]. change (35%Z :: tag ++ 58%Z :: v) with ((35%Z :: tag) ++ 58%Z :: v).
    rewrite item_roundtrip by exact Ct. cbn [app]. rewrite IH. reflexivity.
Qed.
Lemma items_text_app a b tail : items_text (a ++ b) tail = items_text a (items_text b tail).
Proof. unfold items_text. apply fold_right_app. Qed.

Lemma notin_dec (c : Z) (l : text) : existsb (Z.eqb c) l = false -> ~ In c l.
Proof. intros H I. assert (existsb (Z.eqb c) l = true); [|congruence]. apply existsb_exists. exists c. split; [exact I|apply Z.eqb_refl]. Qed.

(* ---------------------------------------------------------------- the header as a list of lines  #TAG:value; *)
Definition hline (tv : text * text) : text := (35%Z :: fst tv) ++ 58%Z :: snd tv ++ [59%Z].
Fixpoint hitems (W : text) (hl : list (text * text)) : list (text * text * text * text) :=
  match hl with
  | [] => []
  | (tag, v) :: r => (W, tag, v, []) :: hitems nl r
  end.
Lemma header_flat hl : forall W R, hl <> [] -> R <> [] ->
  W ++ join nl (map hline hl ++ R) = items_text (hitems W hl) (nl ++ join nl R).
Proof.
  induction hl as [|[tag v] r IH]; intros W R Hne HR; [congruence|].
  cbn [map app]. rewrite join_cons by (destruct r; [exact HR|discriminate]).
  cbn [hitems items_text fold_right]. fold (items_text (hitems nl r) (nl ++ join nl R)).
  destruct r as [|tv r'].
  - cbn [map app hitems items_text fold_right]. unfold hline. cbn [fst snd]. rewrite <- !app_assoc. cbn [app]. rewrite <- !app_assoc. reflexivity.
  - rewrite <- (IH nl R ltac:(discriminate) HR). unfold hline. cbn [fst snd]. rewrite <- !app_assoc. cbn [app]. rewrite <- !app_assoc. reflexivity.
Qed.

(* ---------------------------------------------------------------- a chart block as nine lines *)
Record cdata := mkCd { cd_comment : text; cd_ty : text; cd_desc : text; cd_diff : text; cd_meter : text; cd_radar : text; cd_body : text }.
Definition sp5 : text := tx "     ".
Definition ctexts (cd : cdata) : list text :=
  [cd_comment cd; tx "#NOTES:"; sp5 ++ cd_ty cd ++ [58%Z]; sp5 ++ cd_desc cd ++ [58%Z]; sp5 ++ cd_diff cd ++ [58%Z];
   sp5 ++ cd_meter cd ++ [58%Z]; sp5 ++ cd_radar cd ++ [58%Z]; cd_body cd; [59%Z; 10%Z; 10%Z]].
Definition ctexts' (cd : cdata) : list text := [] :: tl (ctexts cd).
Definition cvalue (cd : cdata) : text :=
  nl ++ sp5 ++ cd_ty cd ++ 58%Z :: nl ++ sp5 ++ cd_desc cd ++ 58%Z :: nl ++ sp5 ++ cd_diff cd ++ 58%Z :: nl ++ sp5 ++ cd_meter cd
  ++ 58%Z :: nl ++ sp5 ++ cd_radar cd ++ 58%Z :: match cd_body cd with [] => [] | _ => nl ++ cd_body cd end.
Definition cw2 (cd : cdata) : text := match cd_body cd with [] => [10%Z; 10%Z] | _ => nl end.
Fixpoint chart_items (W : text) (cds : list cdata) : list (text * text * text * text) :=
  match cds with
  | [] => []
  | cd :: r => (W ++ nl, tx "NOTES", cvalue cd, cw2 cd) :: chart_items [10%Z; 10%Z; 10%Z] r
  end.

Lemma charts_flat cds : forall W, cds <> [] -> W ++ join nl (concat (map ctexts' cds)) = items_text (chart_items W cds) [10%Z; 10%Z].
Proof.
  induction cds as [|cd r IH]; intros W Hne; [congruence|].
  cbn [map concat ctexts' ctexts tl app chart_items items_text fold_right]. fold (items_text (chart_items [10%Z; 10%Z; 10%Z] r) [10%Z; 10%Z]).
  remember (concat (map ctexts' r)) as T eqn:ET.
  do 8 (rewrite join_cons by discriminate). unfold text in *.
  assert (E: join nl ([59%Z; 10%Z; 10%Z] :: T) = 59%Z :: items_text (chart_items [10%Z; 10%Z; 10%Z] r) [10%Z; 10%Z]).
  { subst T. destruct r as [|cd' r'].
    - reflexivity.
    - rewrite join_cons by (cbn [map concat ctexts' app]; discriminate). rewrite <- (IH [10%Z; 10%Z; 10%Z] ltac:(discriminate)). reflexivity. }
  rewrite E.
  unfold cvalue, cw2. destruct (cd_body cd) as [|b0 body].
  - change (tx "#NOTES:") with ((35%Z :: tx "NOTES") ++ [58%Z]). unfold nl. repeat (rewrite <- !app_assoc; cbn [app]). reflexivity.
  - change (tx "#NOTES:") with ((35%Z :: tx "NOTES") ++ [58%Z]). unfold nl. repeat (rewrite <- !app_assoc; cbn [app]). reflexivity.
Qed.

Lemma no47_clean a : ~ In 47%Z a -> contains (tx "//") a = false.
Proof. intro H. rewrite <- (app_nil_r a), (cs_skip_clean a [] H). reflexivity. Qed.
Lemma tame_wrap_clean pre v c : ~ In 47%Z pre -> contains (tx "//") v = false -> c <> 47%Z -> contains (tx "//") (pre ++ v ++ [c]) = false.
Proof. intros H1 H2 H3. rewrite (cs_skip_clean pre _ H1), (cs_skip_tame v c [] H2 H3). reflexivity. Qed.

Definition cd_clean (cd : cdata) : Prop :=
  (exists rest, cd_comment cd = 47%Z :: 47%Z :: rest /\ ~ In 10%Z rest)
  /\ contains (tx "//") (cd_ty cd) = false /\ contains (tx "//") (cd_desc cd) = false /\ contains (tx "//") (cd_diff cd) = false
  /\ contains (tx "//") (cd_meter cd) = false /\ contains (tx "//") (cd_radar cd) = false /\ contains (tx "//") (cd_body cd) = false.
Lemma ctexts_strip cd : cd_clean cd -> map strip_comments (ctexts cd) = ctexts' cd.
Proof.
  intros [[rest [Ec Hn]] [H1 [H2 [H3 [H4 [H5 H6]]]]]]. unfold ctexts', ctexts. cbn [map tl]. rewrite Ec, (strip_comments_comment rest Hn).
  assert (S5: ~ In 47%Z sp5) by (apply notin_dec; reflexivity).
  rewrite !strip_comments_clean; try reflexivity; try assumption; try (apply tame_wrap_clean; [exact S5|assumption|discriminate]).
Qed.
Definition h_clean (tv : text * text) : Prop := ~ In 47%Z (fst tv) /\ contains (tx "//") (snd tv) = false.
Lemma hline_strip tv : h_clean tv -> strip_comments (hline tv) = hline tv.
Proof.
  intros [H1 H2]. apply strip_comments_clean. unfold hline.
  change ((35%Z :: fst tv) ++ 58%Z :: snd tv ++ [59%Z]) with (((35%Z :: fst tv) ++ [58%Z]) ++ snd tv ++ [59%Z]) || idtac.
  replace ((35%Z :: fst tv) ++ 58%Z :: snd tv ++ [59%Z]) with (((35%Z :: fst tv) ++ [58%Z]) ++ snd tv ++ [59%Z]) by (rewrite <- app_assoc; reflexivity).
  apply tame_wrap_clean; [|exact H2|discriminate].
  intro I. apply in_app_or in I. destruct I as [[I|I]|[I|[]]]; [discriminate|exact (H1 I)|discriminate].
Qed.

Definition h_ok (tv : text * text) : Prop :=
  ~ In 59%Z (fst tv) /\ ~ In 58%Z (fst tv) /\ ~ In 59%Z (snd tv) /\ head_nows (rev (snd tv)).
Definition cd_ok (cd : cdata) : Prop := ~ In 59%Z (cvalue cd) /\ head_nows (rev (cvalue cd)).

Lemma hitems_ok hl : forall W, ws_all W = true -> Forall h_ok hl -> Forall item_ok' (hitems W hl).
Proof.
  induction hl as [|[tag v] r IH]; intros W HW H; cbn [hitems]; constructor.
  - apply Forall_cons_iff in H. destruct H as [[A [B [C D]]] _]. cbn [fst snd] in *. repeat split; try assumption.
  - apply IH; [reflexivity|]. apply Forall_cons_iff in H. apply H.
Qed.
Lemma chart_items_ok cds : forall W, ws_all W = true -> Forall cd_ok cds -> Forall item_ok' (chart_items W cds).
Proof.
  induction cds as [|cd r IH]; intros W HW H; cbn [chart_items]; constructor.
  - apply Forall_cons_iff in H. destruct H as [[A B] _]. unfold item_ok'. split; [unfold ws_all in *; rewrite forallb_app, HW; reflexivity|].
    split; [unfold cw2; destruct (cd_body cd); reflexivity|]. split; [apply notin_dec; reflexivity|]. split; [exact A|]. split; [apply notin_dec; reflexivity|exact B].
  - apply IH; [reflexivity|]. apply Forall_cons_iff in H. apply H.
Qed.
Lemma hitems_map hl : forall W, map (fun it : text * text * text * text => let '(w, tag, v, w2) := it in (35%Z :: tag, v)) (hitems W hl)
  = map (fun tv : text * text => (35%Z :: fst tv, snd tv)) hl.
Proof. induction hl as [|[tag v] r IH]; intro W; cbn [hitems map fst snd]; [reflexivity|]. rewrite IH. reflexivity. Qed.
Lemma chart_items_map cds : forall W, map (fun it : text * text * text * text => let '(w, tag, v, w2) := it in (35%Z :: tag, v)) (chart_items W cds)
  = map (fun cd => (tx "#NOTES", cvalue cd)) cds.
Proof. induction cds as [|cd r IH]; intro W; cbn [chart_items map]; [reflexivity|]. rewrite IH. reflexivity. Qed.

Theorem file_items hl cds : hl <> [] -> cds <> [] -> Forall h_clean hl -> Forall cd_clean cds -> Forall h_ok hl -> Forall cd_ok cds ->
  items_go (split_on 59 (strip_comments (join nl (map hline hl ++ concat (map ctexts cds)))))
  = Some (map (fun tv : text * text => (35%Z :: fst tv, snd tv)) hl ++ map (fun cd => (tx "#NOTES", cvalue cd)) cds).
Proof.
  intros Hh Hc C1 C2 O1 O2.
  assert (Hne: map hline hl ++ concat (map ctexts cds) <> []) by (destruct hl; [congruence|discriminate]).
  unfold nl. rewrite (strip_comments_join _ Hne). fold nl. rewrite map_app.
  assert (E1: map strip_comments (map hline hl) = map hline hl).
  { rewrite map_map. apply map_ext_in. intros tv Htv. rewrite Forall_forall in C1. apply hline_strip. apply C1. exact Htv. }
  assert (E2: map strip_comments (concat (map ctexts cds)) = concat (map ctexts' cds)).
  { rewrite concat_map, map_map. f_equal. apply map_ext_in. intros cd Hcd. rewrite Forall_forall in C2. apply ctexts_strip. apply C2. exact Hcd. }
  rewrite E1, E2.
  assert (R: concat (map ctexts' cds) <> []) by (destruct cds; [congruence|discriminate]).
  pose proof (header_flat hl [] _ Hh R) as F. cbn [app] in F. rewrite F, (charts_flat cds nl Hc), <- items_text_app.
  rewrite items_go_text'; [|apply Forall_app; split; [apply hitems_ok; [reflexivity|exact O1]|apply chart_items_ok; [reflexivity|exact O2]]|reflexivity].
  rewrite map_app, hitems_map, chart_items_map. reflexivity.
Qed.

(* ---------------------------------------------------------------- #BPMS and radar values *)
Definition ptext (ab : text * text) : text := fst ab ++ 61%Z :: snd ab.
Definition pair_ok (ab : text * text) (p : Q * Q) : Prop :=
  numeral (fst ab) = true /\ numeral (snd ab) = true /\ parse_decimal (fst ab) = Some (fst p) /\ parse_decimal (snd ab) = Some (snd p).

Lemma split44_join_gen l : forall p, l <> [] -> ~ In 44%Z p -> Forall (fun a => ~ In 44%Z a) l ->
  split_on 44 (p ++ join [44%Z; 10%Z] l) = match l with [] => [] | a :: r => (p ++ a) :: map (cons 10%Z) r end.
Proof.
  induction l as [|a r IH]; intros p Hne Hp H; [congruence|]. apply Forall_cons_iff in H. destruct H as [Ha Hr].
  destruct r as [|b r'].
  - cbn [join map]. apply split_on_no_sep. intro I. apply in_app_or in I. destruct I as [I|I]; [exact (Hp I)|exact (Ha I)].
  - rewrite join_cons by discriminate. cbn [app]. rewrite app_assoc.
    rewrite split_on_app by (intro I; apply in_app_or in I; destruct I as [I|I]; [exact (Hp I)|exact (Ha I)]).
    f_equal. change (10%Z :: join [44%Z; 10%Z] (b :: r')) with ([10%Z] ++ join [44%Z; 10%Z] (b :: r')).
    rewrite (IH [10%Z] ltac:(discriminate) ltac:(intros [I|[]]; discriminate) Hr). reflexivity.
Qed.
Lemma split44_join l : l <> [] -> Forall (fun p => ~ In 44%Z p) l ->
  split_on 44 (join [44%Z; 10%Z] l) = match l with [] => [] | a :: r => a :: map (cons 10%Z) r end.
Proof. intros Hne H. apply (split44_join_gen l [] Hne (fun I => I) H). Qed.

Lemma numeral_ends n x : numeral n = true -> parse_decimal n = Some x -> n <> [] /\ head_nows n /\ head_nows (rev n).
Proof.
  intros Hn Hp. split; [apply (parse_decimal_nonempty n x Hp)|]. pose proof (numeral_nows n Hn) as W.
  split; [apply nows_head; exact W|apply nows_head; rewrite forallb_rev; exact W].
Qed.
Lemma numeral_no n c : numeral n = true -> is_num_char c = false -> ~ In c n.
Proof. apply numeral_not_in. Qed.

Lemma ptext_ends ab p : pair_ok ab p -> ptext ab <> [] /\ head_nows (ptext ab) /\ head_nows (rev (ptext ab)).
Proof.
  intros [N1 [N2 [P1 P2]]]. destruct (numeral_ends _ _ N1 P1) as [A1 [A2 _]]. destruct (numeral_ends _ _ N2 P2) as [B1 [_ B3]].
  unfold ptext. destruct (fst ab) as [|x a]; [congruence|]. split; [discriminate|]. split; [exact A2|].
  rewrite rev_app_distr. cbn [rev]. rewrite <- app_assoc. destruct (rev (snd ab)) as [|y r] eqn:E; [|exact B3].
  exfalso. apply B1. rewrite <- (rev_involutive (snd ab)), E. reflexivity.
Qed.
Lemma parse_pair_ptext ab p : pair_ok ab p -> parse_pair (ptext ab) = Some p.
Proof.
  intros [N1 [N2 [P1 P2]]]. unfold parse_pair, ptext.
  rewrite split_on_app by (apply (numeral_no _ _ N1); reflexivity). rewrite split_on_no_sep by (apply (numeral_no _ _ N2); reflexivity).
  rewrite P1, P2. destruct p; reflexivity.
Qed.
Lemma strip_nl_ptext ab p : pair_ok ab p -> strip (10%Z :: ptext ab) = ptext ab.
Proof.
  intro H. destruct (ptext_ends ab p H) as [_ [A B]].
  change (10%Z :: ptext ab) with ([10%Z] ++ ptext ab). rewrite <- (app_nil_r (ptext ab)) at 1.
  apply strip_ends; [reflexivity|reflexivity|]. apply ends_okb_spec. split; assumption.
Qed.
Lemma strip_ptext ab p : pair_ok ab p -> strip (ptext ab) = ptext ab.
Proof. intro H. destruct (ptext_ends ab p H) as [_ [A B]]. apply strip_id; assumption. Qed.

Lemma bpms_parse bp pairs : bp <> [] -> Forall2 pair_ok bp pairs ->
  map_opt (fun p => parse_pair (strip p)) (split_on 44 (join [44%Z; 10%Z] (map ptext bp))) = Some pairs.
Proof.
  intros Hne F.
  assert (N44: Forall (fun p => ~ In 44%Z p) (map ptext bp)).
  { apply Forall_forall. intros t Ht. apply in_map_iff in Ht. destruct Ht as [ab [<- Hab]].
    destruct (forall2_in_l _ _ _ _ F Hab) as [p [_ [N1 [N2 _]]]]. unfold ptext. intro I. apply in_app_or in I.
    destruct I as [I|[I|I]]; [exact (numeral_no _ 44%Z N1 eq_refl I)|discriminate|exact (numeral_no _ 44%Z N2 eq_refl I)]. }
  rewrite split44_join; [|destruct bp; [congruence|discriminate]|exact N44].
  destruct F as [|ab p bp' pairs' Hp F]; [congruence|]. cbn [map map_opt].
  rewrite (strip_ptext ab p Hp), (parse_pair_ptext ab p Hp).
  assert (R: map_opt (fun p0 => parse_pair (strip p0)) (map (cons 10%Z) (map ptext bp')) = Some pairs').
  { clear - F. induction F as [|ab p bp' pairs' Hp F IH]; [reflexivity|]. cbn [map map_opt].
    rewrite (strip_nl_ptext ab p Hp), (parse_pair_ptext ab p Hp), IH. reflexivity. }
  rewrite R. reflexivity.
Qed.
Lemma bpms_text_ok bp pairs : bp <> [] -> Forall2 pair_ok bp pairs ->
  let t := join [44%Z; 10%Z] (map ptext bp) in
  ~ In 59%Z t /\ ~ In 47%Z t /\ head_nows t /\ head_nows (rev t).
Proof.
  intros Hne F t.
  assert (Hm: map ptext bp <> []) by (destruct bp; [congruence|discriminate]).
  assert (Hch: forallb (fun c => is_num_char c || (c =? 61)%Z || (c =? 44)%Z || (c =? 10)%Z) t = true).
  { apply join_chars; [reflexivity|]. apply Forall_forall. intros x Hx. apply in_map_iff in Hx. destruct Hx as [ab [<- Hab]].
    destruct (forall2_in_l _ _ _ _ F Hab) as [p [_ [N1 [N2 _]]]]. unfold ptext. rewrite forallb_app. cbn [forallb].
    unfold numeral in N1, N2. rewrite !andb_true_iff. split; [|split; [reflexivity|]]; apply forallb_forall; intros c Hc.
    - rewrite forallb_forall in N1. rewrite (N1 c Hc). reflexivity.
    - rewrite forallb_forall in N2. rewrite (N2 c Hc). reflexivity. }
  split; [apply (forallb_not_in _ _ _ Hch); reflexivity|]. split; [apply (forallb_not_in _ _ _ Hch); reflexivity|].
  assert (Hh: Forall (fun a : text => a <> [] /\ head_nows a) (map ptext bp)).
  { apply Forall_forall. intros x Hx. apply in_map_iff in Hx. destruct Hx as [ab [<- Hab]].
    destruct (forall2_in_l _ _ _ _ F Hab) as [p [_ Hp]]. destruct (ptext_ends ab p Hp) as [A [B _]]. split; assumption. }
  assert (Hl: Forall (fun a : text => a <> [] /\ head_nows (rev a)) (map ptext bp)).
  { apply Forall_forall. intros x Hx. apply in_map_iff in Hx. destruct Hx as [ab [<- Hab]].
    destruct (forall2_in_l _ _ _ _ F Hab) as [p [_ Hp]]. destruct (ptext_ends ab p Hp) as [A [_ B]]. split; assumption. }
  split; [apply (join_head _ _ Hm Hh)|apply (join_last _ _ Hm Hl)].
Qed.

(* radar *)
Definition rad_ok (n : text) (x : Q) : Prop := numeral n = true /\ parse_decimal n = Some x.
Lemma radar_parse rn rd : rn <> [] -> Forall2 rad_ok rn rd -> map_opt parse_decimal (split_on 44 (join [44%Z] rn)) = Some rd.
Proof.
  intros Hne F. rewrite split_join1; [|exact Hne|].
  - clear Hne. induction F as [|n x rn rd [_ P] F IH]; [reflexivity|]. cbn [map_opt]. rewrite P, IH. reflexivity.
  - apply Forall_forall. intros n Hn. destruct (forall2_in_l _ _ _ _ F Hn) as [x [_ [N _]]]. apply (numeral_no _ _ N). reflexivity.
Qed.
Lemma radar_text_ok rn rd : rn <> [] -> Forall2 rad_ok rn rd ->
  let t := join [44%Z] rn in ~ In 59%Z t /\ ~ In 58%Z t /\ ~ In 47%Z t /\ head_nows t /\ head_nows (rev t).
Proof.
  intros Hne F t.
  assert (Hch: forallb (fun c => is_num_char c || (c =? 44)%Z) t = true).
  { apply join_chars; [reflexivity|]. apply Forall_forall. intros n Hn. destruct (forall2_in_l _ _ _ _ F Hn) as [x [_ [N _]]].
    apply forallb_forall. intros c Hc. unfold numeral in N. rewrite forallb_forall in N. rewrite (N c Hc). reflexivity. }
  split; [apply (forallb_not_in _ _ _ Hch); reflexivity|]. split; [apply (forallb_not_in _ _ _ Hch); reflexivity|].
  split; [apply (forallb_not_in _ _ _ Hch); reflexivity|].
  assert (Hh: Forall (fun a : text => a <> [] /\ head_nows a) rn).
  { apply Forall_forall. intros n Hn. destruct (forall2_in_l _ _ _ _ F Hn) as [x [_ [N P]]]. destruct (numeral_ends n x N P) as [A [B _]]. split; assumption. }
  assert (Hl: Forall (fun a : text => a <> [] /\ head_nows (rev a)) rn).
  { apply Forall_forall. intros n Hn. destruct (forall2_in_l _ _ _ _ F Hn) as [x [_ [N P]]]. destruct (numeral_ends n x N P) as [A [_ B]]. split; assumption. }
  split; [apply (join_head _ _ Hne Hh)|apply (join_last _ _ Hne Hl)].
Qed.

(* ---------------------------------------------------------------- the value of a #NOTES item *)
Lemma field_split f X : ~ In 58%Z f -> split_on 58 (nl ++ sp5 ++ f ++ 58%Z :: X) = (nl ++ sp5 ++ f) :: split_on 58 X.
Proof.
  intro H. rewrite !app_assoc. apply split_on_app. intro I. apply in_app_or in I. destruct I as [I|I]; [|exact (H I)].
  revert I. apply notin_dec. reflexivity.
Qed.
Lemma strip_field f : ends_okb f = true -> strip (nl ++ sp5 ++ f) = f.
Proof.
  intro H. rewrite app_assoc. rewrite <- (app_nil_r f) at 1. apply strip_ends; [reflexivity|reflexivity|exact H].
Qed.
Definition cd_fields_ok (cd : cdata) : Prop :=
  (~ In 58%Z (cd_ty cd) /\ ends_okb (cd_ty cd) = true) /\ (~ In 58%Z (cd_desc cd) /\ ends_okb (cd_desc cd) = true)
  /\ (~ In 58%Z (cd_diff cd) /\ ends_okb (cd_diff cd) = true) /\ (~ In 58%Z (cd_meter cd) /\ ends_okb (cd_meter cd) = true)
  /\ (~ In 58%Z (cd_radar cd) /\ ends_okb (cd_radar cd) = true) /\ (~ In 58%Z (cd_body cd) /\ ends_okb (cd_body cd) = true).
Lemma cvalue_fields cd : cd_fields_ok cd ->
  map strip (split_on 58 (cvalue cd)) = [cd_ty cd; cd_desc cd; cd_diff cd; cd_meter cd; cd_radar cd; cd_body cd].
Proof.
  intros [[A1 A2] [[B1 B2] [[C1 C2] [[D1 D2] [[E1 E2] [F1 F2]]]]]]. unfold cvalue.
  rewrite (field_split _ _ A1), (field_split _ _ B1), (field_split _ _ C1), (field_split _ _ D1), (field_split _ _ E1).
  cbn [map]. rewrite !strip_field by assumption. do 5 f_equal.
  destruct (cd_body cd) as [|b0 body] eqn:Eb.
  - reflexivity.
  - rewrite split_on_no_sep.
    + cbn [map]. f_equal. rewrite <- (app_nil_r (b0 :: body)) at 1. apply strip_ends; [reflexivity|reflexivity|exact F2].
    + intro I. apply in_app_or in I. destruct I as [[I|[]]|I]; [discriminate|exact (F1 I)].
Qed.

Lemma denote_chart_cvalue cd keys mt rd time op notes ns : cd_fields_ok cd ->
  ref_keys (cd_ty cd) = Some keys -> parse_int (cd_meter cd) = Some mt ->
  map_opt parse_decimal (split_on 44 (cd_radar cd)) = Some rd ->
  denote_measures (match cd_body cd with [] => [] | _ => split_on 44 (cd_body cd) end) keys 0 time (repeat None (Z.to_nat keys)) [] [] = Some (op, notes, ns) ->
  forallb (fun o : option (kind * Q) => match o with None => true | Some _ => false end) op = true ->
  denote_chart (cvalue cd) time = Some (mkDc (cd_ty cd) (cd_desc cd) (cd_diff cd) mt rd (rev ns) (rev notes)).
Proof.
  intros Hf Hk Hm Hr Hd Ho. unfold denote_chart. rewrite (cvalue_fields cd Hf), Hk, Hm, Hr, Hd, Ho. reflexivity.
Qed.

Lemma list_close_refl0 a b : Forall2 (fun x r => x == r) a b -> list_close 0 a b = true.
Proof.
  induction 1 as [|x r a b E _ IH]; [reflexivity|]. cbn [list_close]. rewrite IH, andb_true_r. unfold q_close. apply Qle_bool_iff.
  assert (Z0: x - r == 0) by (rewrite E; ring). rewrite (Qabs_wd _ _ Z0). cbn. lra.
Qed.
Lemma q_close0 a b : a == b -> q_close 0 a b = true.
Proof. intro E. unfold q_close. apply Qle_bool_iff. assert (Z0: a - b == 0) by (rewrite E; ring). rewrite (Qabs_wd _ _ Z0). cbn. lra. Qed.
Lemma text_eqb_refl a : text_eqb a a = true.
Proof. induction a as [|x a IH]; [reflexivity|]. cbn [text_eqb]. rewrite Z.eqb_refl, IH. reflexivity. Qed.

(* ---------------------------------------------------------------- renderings of single lines *)
Lemma mtl1 a t : match_toks 0 [L a] t = true -> t = tx a.
Proof. intro H. apply mt_lit in H. destruct H as [s' [-> H]]. apply mt_nil in H. subst. apply app_nil_r. Qed.
Lemma mtl1' a t : match_toks 0 [TLit a] t = true -> t = a.
Proof. intro H. apply mt_lit in H. destruct H as [s' [-> H]]. apply mt_nil in H. subst. apply app_nil_r. Qed.
Lemma mtl3 a v b t : match_toks 0 [L a; TLit v; L b] t = true -> t = tx a ++ (v ++ tx b).
Proof.
  intro H. apply mt_lit in H. destruct H as [s1 [-> H]]. apply mt_lit in H. destruct H as [s2 [-> H]]. apply mtl1 in H. subst. reflexivity.
Qed.
Lemma mtn3 a q b t : match_toks 0 [L a; TNum q; L b] t = true ->
  exists n x, t = tx a ++ (n ++ tx b) /\ numeral n = true /\ parse_decimal n = Some x /\ x == q.
Proof.
  intro H. apply mt_lit in H. destruct H as [s1 [-> H]]. apply mt_num in H. destruct H as [n [s2 [x [-> [N [P [E H]]]]]]].
  apply mtl1 in H. subst. exists n, x. repeat split; assumption.
Qed.

Lemma mt_pairs (items : list (Q * Q)) r t :
  match_toks 0 (concat (intersperse [TLit [44%Z; 10%Z]] (map (fun bq : Q * Q => [TRnd2 (fst bq); L "="; TNum (snd bq)]) items)) ++ r) t = true ->
  exists bp pairs s', t = join [44%Z; 10%Z] (map ptext bp) ++ s' /\ match_toks 0 r s' = true /\ Forall2 pair_ok bp pairs
    /\ Forall2 (fun (p bq : Q * Q) => is_millionth (fst p) = true /\ Qabs (fst p - fst bq) <= 1 # 2000000 /\ snd p == snd bq) pairs items.
Proof.
  intro H. apply mt_sep in H. destruct H as [texts [s' [F [-> Hr]]]].
  assert (G: exists bp pairs, texts = map ptext bp /\ Forall2 pair_ok bp pairs
             /\ Forall2 (fun (p bq : Q * Q) => is_millionth (fst p) = true /\ Qabs (fst p - fst bq) <= 1 # 2000000 /\ snd p == snd bq) pairs items).
  { clear Hr. apply forall2_map_l in F. revert texts F. induction items as [|bq items IH]; intros texts F.
    - inversion F; subst. exists [], []. repeat split; constructor.
    - inversion F as [|? t0 ? texts' H0 F']; subst. destruct (IH texts' F') as [bp [pairs [-> [A B]]]].
      apply mt_rnd2 in H0. destruct H0 as [n1 [s1 [x1 [-> [N1 [P1 [Hh [Hd H0]]]]]]]].
      apply mt_lit in H0. destruct H0 as [s2 [-> H0]]. apply mt_num in H0. destruct H0 as [n2 [s3 [x2 [-> [N2 [P2 [E2 H0]]]]]]].
      apply mt_nil in H0. subst s3.
      exists ((n1, n2) :: bp), ((x1, x2) :: pairs). split; [|split].
      + cbn [map]. f_equal. unfold ptext. cbn [fst snd]. rewrite app_nil_r. reflexivity.
      + constructor; [|exact A]. unfold pair_ok. cbn [fst snd]. repeat split; assumption.
      + constructor; [|exact B]. cbn [fst snd]. repeat split; assumption. }
  destruct G as [bp [pairs [-> [A B]]]]. exists bp, pairs, s'. repeat split; assumption.
Qed.

Lemma mt_radar (radar : list Q) t :
  match_toks 0 ((L "     " :: intersperse (L ",") (map TNum radar)) ++ [L ":"]) t = true ->
  exists rn rd, t = sp5 ++ (join [44%Z] rn ++ [58%Z]) /\ Forall2 rad_ok rn rd /\ Forall2 (fun x r => x == r) rd radar.
Proof.
  intro H. cbn [app] in H. apply mt_lit in H. destruct H as [s1 [-> H]].
  rewrite <- (intersperse_singletons (L ",") (map TNum radar)) in H.
  apply mt_sep in H. destruct H as [texts [s' [F [-> Hr]]]]. apply mtl1 in Hr. subst s'.
  assert (G: exists rd, Forall2 rad_ok texts rd /\ Forall2 (fun x r => x == r) rd radar).
  { rewrite map_map in F. apply forall2_map_l in F. revert texts F. induction radar as [|q radar IH]; intros texts F.
    - inversion F; subst. exists []. split; constructor.
    - inversion F as [|? t0 ? texts' H0 F']; subst. destruct (IH texts' F') as [rd [A B]].
      apply mt_num in H0. destruct H0 as [n [s2 [x [-> [N [P [E H0]]]]]]]. apply mt_nil in H0. subst s2. rewrite app_nil_r.
      exists (x :: rd). split; constructor; try assumption. split; assumption. }
  destruct G as [rd [A B]]. exists texts, rd. split; [reflexivity|]. split; assumption.
Qed.

Lemma forall2_concat_inv {A B} (R : A -> B -> Prop) (lls : list (list A)) texts :
  Forall2 R (concat lls) texts -> exists tss, texts = concat tss /\ Forall2 (Forall2 R) lls tss.
Proof.
  revert texts. induction lls as [|l lls IH]; intros texts H; cbn [concat] in H.
  - inversion H; subst. exists []. split; [reflexivity|constructor].
  - apply Forall2_app_inv_l in H. destruct H as [t1 [t2 [H1 [H2 ->]]]]. destruct (IH t2 H2) as [tss [-> F]].
    exists (t1 :: tss). split; [reflexivity|constructor; assumption].
Qed.

(* ---------------------------------------------------------------- domain, unpacked *)
Lemma tame_parts t : tame_str t = true ->
  ~ In 59%Z t /\ ~ In 58%Z t /\ ~ In 10%Z t /\ contains (tx "//") t = false /\ strip t = t.
Proof.
  unfold tame_str. intro H. apply andb_true_iff in H. destruct H as [H H3]. apply andb_true_iff in H. destruct H as [H1 H2].
  apply negb_true_iff in H1, H2.
  assert (N: forall c, ((c =? 59)%Z || (c =? 58)%Z || (c =? 10)%Z || (c =? 13)%Z) = true -> ~ In c t).
  { intros c Hc I. assert (existsb (fun c => (c =? 59)%Z || (c =? 58)%Z || (c =? 10)%Z || (c =? 13)%Z) t = true); [|congruence].
    apply existsb_exists. exists c. split; assumption. }
  split; [apply N; reflexivity|]. split; [apply N; reflexivity|]. split; [apply N; reflexivity|]. split; [exact H2|].
  revert H3. generalize (strip t). intros u Hu. clear - Hu. revert t Hu. induction u as [|x u IH]; intros [|y t] H; cbn [text_eqb] in H; try discriminate; [reflexivity|].
  apply andb_true_iff in H. destruct H as [H1 H2]. apply Z.eqb_eq in H1. subst. f_equal. apply IH. exact H2.
Qed.

(* the tempo list of the denotation is the mapset's tempo list: same length, and every tempo row (offset, bpm) of the first
   chart is a tempo change of the text at the row's beat, with its bpm, at its millisecond offset *)
Definition tempo_denotes (d : dfile) (rows : list (Q * Q * Q)) (init : Q) (l : list bcs) : Prop :=
  length (d_tempo d) = length rows
  /\ forall r, In r rows -> exists tp : Q * Q * Q, In tp (d_tempo d)
       /\ fst (fst tp) == spec_beat init l (fst (fst r)) /\ snd (fst tp) == snd (fst r) /\ snd tp == fst (fst r).

Section FileThm.
  Variable cf : smconf.
  Let tbl := k_tbl cf.
  Hypothesis Hcf : cf = ref_conf (k_tbl cf) (k_chart_keys cf).
  Hypothesis Hok : table_ok (1 # 96) tbl = true.

  (* what is established for one chart: its note data is written and denotes notes with property P *)
  Definition chart_res (P : smchart -> list dnote -> Prop) (c : smchart) (time : Q -> Q) (keys : Z) : Prop :=
    exists body, chart_body cf current c = Some body
      /\ (body = [] \/ (head_nows body /\ head_nows (rev body))) /\ forallb bodych body = true
      /\ exists op notes ns,
           denote_measures (match body with [] => [] | _ => split_on 44 body end) keys 0 time (repeat None (Z.to_nat keys)) [] [] = Some (op, notes, ns)
           /\ forallb (fun o : option (kind * Q) => match o with None => true | Some _ => false end) op = true
           /\ P c (rev notes).
  (* the per-chart domain and the per-chart conclusion are parameters: instantiated for the exact and for the cap regime *)
  Variable chartdom : smchart -> smchart -> Q -> list bcs -> bool.
  Variable Pc : Q -> list bcs -> smchart -> list dnote -> Prop.
  Hypothesis Hchart_common : forall c0 c init l, chartdom c0 c init l = true -> chart_common_domb cf c0 c init l = true.
  Hypothesis Hchart : forall rows init l, tempo_script_of cf rows = Some (init, l) -> tempo_domb cf rows init l = true ->
    forall script beat0, Forall2 bcs_eqv script l -> beat0 == init ->
    forall c0 c keys, c_bpms c0 = rows -> chartdom c0 c init l = true -> ref_keys (c_type c) = Some keys ->
      chart_res (Pc init l) c (beat_time beat0 script) keys.

  Lemma chart_dom_parts c0 c init l : chart_common_domb cf c0 c init l = true ->
    exists keys, ref_keys (c_type c) = Some keys /\ get_keys cf (c_type c) = Some keys
      /\ tame_str (c_type c) = true /\ tame_str (c_desc c) = true /\ tame_str (c_diff c) = true /\ c_radar c <> []
      /\ c_bpms c = c_bpms c0
      /\ forallb (fun e : Q * Z * Z => (0 <=? snd (fst e))%Z && (snd (fst e) <? keys)%Z) (chart_events cf c) = true
      /\ forallb (fun h : Q * Z * Q => Qlt_bool 0 (snd h)) (c_holds c ++ c_rolls c) = true
      /\ longs_disjoint (c_holds c ++ c_rolls c) = true
      /\ forallb (fun e : Q * Z * Z => time_okb cf init l (fst (fst e))) (chart_events cf c) = true.
  Proof.
    unfold chart_common_domb. intro H.
    destruct (ref_keys (c_type c)) as [keys|]; [|discriminate]. destruct (get_keys cf (c_type c)) as [keys'|]; [|discriminate].
    repeat (apply andb_true_iff in H; let H' := fresh "G" in destruct H as [H H']).
    apply Z.eqb_eq in H. subst keys'. exists keys. repeat split; try assumption.
    - destruct (c_radar c); [discriminate|discriminate].
    - symmetry. apply (forallb2_eq _ row_same_eq). assumption.
  Qed.

  Lemma set_dom_parts s : c03_dom_with cf chartdom s = true ->
    exists c0 cs init l off, s_maps s = c0 :: cs /\ tempo_script_of cf (c_bpms c0) = Some (init, l)
      /\ forallb tame_str (s_txt s) = true /\ length (s_txt s) = 16%nat /\ tempo_domb cf (c_bpms c0) init l = true
      /\ s_offset s = Some off /\ off == init /\ forallb (fun c => chartdom c0 c init l) (s_maps s) = true.
  Proof.
    unfold c03_dom_with. destruct (s_maps s) as [|c0 cs] eqn:Em; [discriminate|].
    destruct (tempo_script_of cf (c_bpms c0)) as [[init l]|] eqn:Et; [|discriminate]. intro H.
    apply andb_true_iff in H. destruct H as [H Hc]. unfold set_common_domb in H.
    repeat (apply andb_true_iff in H; let H' := fresh "G" in destruct H as [H H']).
    destruct (s_offset s) as [off|] eqn:Eo; [|discriminate].
    exists c0, cs, init, l, off. repeat split; try assumption; try reflexivity.
    - apply Nat.eqb_eq. assumption.
    - apply Qeq_bool_iff. assumption.
  Qed.

  (* ---- one chart block ---- *)
  Definition clines (c : smchart) (body : text) : list (list tok) :=
    [ [L "//------"; TLit (c_type c); L "["; TLit (show_int (c_meter c)); L " "; TLit (c_diff c); L "]------"];
      [L "#NOTES:"];
      [L "     "; TLit (c_type c); L ":"];
      [L "     "; TLit (c_desc c); L ":"];
      [L "     "; TLit (c_diff c); L ":"];
      [L "     "; TLit (show_int (c_meter c)); L ":"];
      (L "     " :: intersperse (L ",") (map TNum (c_radar c))) ++ [L ":"];
      [TLit body];
      [TLit [59%Z; 10%Z; 10%Z]] ].
  Lemma write_chart_eq c body : chart_body cf current c = Some body -> write_chart cf current c = Some (clines c body).
  Proof. intro H. unfold write_chart. rewrite H. reflexivity. Qed.

  Definition mk_cd (c : smchart) (body : text) (rn : list text) : cdata :=
    mkCd (tx "//------" ++ (c_type c ++ (tx "[" ++ (show_int (c_meter c) ++ (tx " " ++ (c_diff c ++ tx "]------"))))))
         (c_type c) (c_desc c) (c_diff c) (show_int (c_meter c)) (join [44%Z] rn) body.

  Lemma chart_render c body texts : Forall2 (fun ln t => match_toks 0 ln t = true) (clines c body) texts ->
    exists rn rd, texts = ctexts (mk_cd c body rn) /\ Forall2 rad_ok rn rd /\ Forall2 (fun x r => x == r) rd (c_radar c).
  Proof.
    unfold clines. intro F.
    inversion F as [|l1 t1 ? r1 H1 F1]; subst. inversion F1 as [|l2 t2 ? r2 H2 F2]; subst. inversion F2 as [|l3 t3 ? r3 H3 F3]; subst.
    inversion F3 as [|l4 t4 ? r4 H4 F4]; subst. inversion F4 as [|l5 t5 ? r5 H5 F5]; subst. inversion F5 as [|l6 t6 ? r6 H6 F6]; subst.
    inversion F6 as [|l7 t7 ? r7 H7 F7]; subst. inversion F7 as [|l8 t8 ? r8 H8 F8]; subst. inversion F8 as [|l9 t9 ? r9 H9 F9]; subst.
    inversion F9; subst. clear F F1 F2 F3 F4 F5 F6 F7 F8 F9.
    apply mt_lit in H1. destruct H1 as [s1 [-> H1]]. apply mt_lit in H1. destruct H1 as [s2 [-> H1]].
    apply mt_lit in H1. destruct H1 as [s3 [-> H1]]. apply mt_lit in H1. destruct H1 as [s4 [-> H1]].
    apply mt_lit in H1. destruct H1 as [s5 [-> H1]]. apply mt_lit in H1. destruct H1 as [s6 [-> H1]]. apply mtl1 in H1. subst s6.
    apply mtl1 in H2. apply mtl3 in H3, H4, H5, H6. apply mt_radar in H7. destruct H7 as [rn [rd [-> [R1 R2]]]].
    apply mtl1' in H8, H9. subst. exists rn, rd. split; [reflexivity|]. split; assumption.
  Qed.

  Lemma notin_app (c : Z) a b : ~ In c a -> ~ In c b -> ~ In c (a ++ b).
  Proof. intros H1 H2 I. apply in_app_or in I. tauto. Qed.
  Lemma notin_cons (c x : Z) b : x <> c -> ~ In c b -> ~ In c (x :: b).
  Proof. intros H1 H2 [I|I]; tauto. Qed.
  Lemma show_int_no z c : (is_digit c || (c =? 45)%Z) = false -> ~ In c (show_int z).
  Proof. apply (forallb_not_in _ _ _ (show_int_chars z)). Qed.
  Lemma body_no body c : forallb bodych body = true -> bodych c = false -> ~ In c body.
  Proof. apply forallb_not_in. Qed.

  Lemma ne_app_r {A} (a b : list A) : b <> [] -> a ++ b <> [].
  Proof. intros H E. apply app_eq_nil in E. tauto. Qed.
  Lemma last_ok_skip X Y : Y <> [] -> head_nows (rev Y) -> head_nows (rev (X ++ Y)).
  Proof.
    intros Hne H. rewrite rev_app_distr. destruct (rev Y) as [|y r] eqn:E; [|exact H].
    exfalso. apply Hne. rewrite <- (rev_involutive Y), E. reflexivity.
  Qed.
  Lemma last_ok_cons (x : Z) Y : Y <> [] -> head_nows (rev Y) -> head_nows (rev (x :: Y)).
  Proof. intros Hne H. change (x :: Y) with ([x] ++ Y). apply last_ok_skip; assumption. Qed.
  Ltac ne_tac := repeat (apply ne_app_r); (discriminate || assumption).
  Ltac last_tac := repeat (first [ apply last_ok_skip; [ne_tac|] | apply last_ok_cons; [ne_tac|] ]).

  Section OneChart.
    Variables (rows : list (Q * Q * Q)) (init : Q) (l : list bcs).
    Hypothesis Hscript : tempo_script_of cf rows = Some (init, l).
    Hypothesis Htd : tempo_domb cf rows init l = true.
    Variables (script : list bcs) (beat0 : Q).
    Hypothesis Hsc : Forall2 bcs_eqv script l.
    Hypothesis Hb0 : beat0 == init.
    Variables (c0 c : smchart).
    Hypothesis Hrows0 : c_bpms c0 = rows.
    Hypothesis Hcd : chartdom c0 c init l = true.

    Lemma chart_body_exists : exists body, chart_body cf current c = Some body.
    Proof.
      destruct (chart_dom_parts c0 c init l (Hchart_common _ _ _ _ Hcd)) as [keys [K1 _]].
      destruct (Hchart rows init l Hscript Htd script beat0 Hsc Hb0 c0 c keys Hrows0 Hcd K1) as [body [B _]]. exists body. exact B.
    Qed.

    Lemma chart_item_denotes body rn rd : chart_body cf current c = Some body ->
      Forall2 rad_ok rn rd -> Forall2 (fun x r => x == r) rd (c_radar c) ->
      let cd := mk_cd c body rn in
      cd_clean cd /\ cd_ok cd /\ exists dc, denote_chart (cvalue cd) (beat_time beat0 script) = Some dc
                                         /\ header_match 0 dc c = true /\ Pc init l c (d_notes dc).
    Proof.
      intros Hbody R1 R2 cd.
      destruct (chart_dom_parts c0 c init l (Hchart_common _ _ _ _ Hcd)) as [keys [K1 [K2 [T1 [T2 [T3 [Rn [Eb [P1 [P2 [P3 P4]]]]]]]]]]].
      destruct (Hchart rows init l Hscript Htd script beat0 Hsc Hb0 c0 c keys Hrows0 Hcd K1)
        as [body' [B [Bends [Bch [op [notes [ns [D [Ho Hperm]]]]]]]]].
      assert (body' = body) by congruence. subst body'.
      destruct (tame_parts _ T1) as [A1 [A2 [A3 [A4 A5]]]]. destruct (tame_parts _ T2) as [B1 [B2 [B3 [B4 B5]]]].
      destruct (tame_parts _ T3) as [C1 [C2 [C3 [C4 C5]]]].
      assert (Hrn: rn <> []).
      { intro E. subst rn. inversion R1; subst. inversion R2; subst. congruence. }
      destruct (radar_text_ok rn rd Hrn R1) as [Q1 [Q2 [Q3 [Q4 Q5]]]].
      assert (Hbe: ends_okb body = true).
      { destruct Bends as [->|[E1 E2]]; [reflexivity|apply ends_okb_spec; split; assumption]. }
      split; [|split].
      - (* clean *)
        unfold cd_clean, cd, mk_cd. cbn [cd_comment cd_ty cd_desc cd_diff cd_meter cd_radar cd_body]. split; [|repeat split; try assumption].
        + eexists. split; [reflexivity|]. change (tx "------") with [45%Z; 45%Z; 45%Z; 45%Z; 45%Z; 45%Z]. cbn [app].
          repeat (apply notin_app || (apply notin_cons; [discriminate|])); try assumption; try (apply show_int_no; reflexivity);
            try (apply notin_dec; reflexivity).
        + apply no47_clean. apply show_int_no. reflexivity.
        + apply no47_clean. exact Q3.
        + apply no47_clean. apply (body_no body 47%Z Bch). reflexivity.
      - (* item ok *)
        unfold cd_ok, cvalue, cd, mk_cd. cbn [cd_comment cd_ty cd_desc cd_diff cd_meter cd_radar cd_body]. split.
        + assert (S5: ~ In 59%Z sp5) by (apply notin_dec; reflexivity). assert (N5: ~ In 59%Z nl) by (apply notin_dec; reflexivity).
          assert (Hb59: ~ In 59%Z body) by (apply (body_no body 59%Z Bch); reflexivity).
          assert (Hm59: ~ In 59%Z (show_int (c_meter c))) by (apply show_int_no; reflexivity).
          assert (Hm: ~ In 59%Z (match body with [] => [] | _ :: _ => nl ++ body end)).
          { destruct body; [intros []|apply notin_app; assumption]. }
          repeat (apply notin_app || (apply notin_cons; [discriminate|])); try assumption; intros [].
        + destruct body as [|b0 bd] eqn:Ebd.
          * last_tac. reflexivity.
          * rewrite <- Ebd in *. assert (Hne: body <> []) by congruence. apply ends_okb_spec in Hbe. destruct Hbe as [_ Hl].
            last_tac. exact Hl.
      - (* denotation *)
        assert (Hf: cd_fields_ok cd).
        { unfold cd_fields_ok, cd, mk_cd. cbn [cd_comment cd_ty cd_desc cd_diff cd_meter cd_radar cd_body].
          repeat split; try assumption; try (apply strip_fix_ends; assumption).
          - apply show_int_no. reflexivity.
          - apply ends_okb_spec. pose proof (show_int_nows (c_meter c)) as W. split; [apply nows_head; exact W|apply nows_head; rewrite forallb_rev; exact W].
          - apply ends_okb_spec. split; assumption.
          - apply (body_no body 58%Z Bch). reflexivity. }
        eexists. split; [|split].
        + apply (denote_chart_cvalue cd keys (c_meter c) rd _ op notes ns Hf K1 (parse_int_show_int _) (radar_parse rn rd Hrn R1) D Ho).
        + unfold header_match. cbn [d_type d_desc d_diff d_meter d_radar].
          unfold cd, mk_cd. cbn [cd_ty cd_desc cd_diff]. rewrite !text_eqb_refl, Z.eqb_refl, (list_close_refl0 _ _ R2). reflexivity.
        + cbn [d_notes]. exact Hperm.
    Qed.
    (* the same block seen from the READER's side: row counts, characters of the note data *)
    Lemma chart_item_reader body rn rd dc : chart_body cf current c = Some body ->
      Forall2 rad_ok rn rd -> Forall2 (fun x r => x == r) rd (c_radar c) ->
      (forall keys' time' op acc op' acc' ns,
         denote_measures (match body with [] => [] | _ => split_on 44 body end) keys' 0 time' op acc [] = Some (op', acc', ns) ->
         Forall (fun n => (n mod 4 = 0)%Z) ns) ->
      denote_chart (cvalue (mk_cd c body rn)) (beat_time beat0 script) = Some dc ->
      Forall (fun n => (n mod 4 = 0)%Z) (d_rows dc) /\ forallb bodych body = true /\ (body = [] \/ (head_nows body /\ head_nows (rev body))).
    Proof.
      intros Hbody R1 R2 R4 DC. set (cd := mk_cd c body rn) in *.
      destruct (chart_dom_parts c0 c init l (Hchart_common _ _ _ _ Hcd)) as [keys [K1 [K2 [T1 [T2 [T3 [Rn [Eb [P1 [P2 [P3 P4]]]]]]]]]]].
      destruct (Hchart rows init l Hscript Htd script beat0 Hsc Hb0 c0 c keys Hrows0 Hcd K1)
        as [body' [B [Bends [Bch [op [notes [ns [D [Ho Hperm]]]]]]]]].
      assert (body' = body) by congruence. subst body'.
      destruct (tame_parts _ T1) as [A1 [A2 [A3 [A4 A5]]]]. destruct (tame_parts _ T2) as [B1 [B2 [B3 [B4 B5]]]].
      destruct (tame_parts _ T3) as [C1 [C2 [C3 [C4 C5]]]].
      assert (Hrn: rn <> []).
      { intro E. subst rn. inversion R1; subst. inversion R2; subst. congruence. }
      destruct (radar_text_ok rn rd Hrn R1) as [Q1 [Q2 [Q3 [Q4 Q5]]]].
      assert (Hbe: ends_okb body = true).
      { destruct Bends as [->|[E1 E2]]; [reflexivity|apply ends_okb_spec; split; assumption]. }
      assert (Hf: cd_fields_ok cd).
      { unfold cd_fields_ok, cd, mk_cd. cbn [cd_comment cd_ty cd_desc cd_diff cd_meter cd_radar cd_body].
        repeat split; try assumption; try (apply strip_fix_ends; assumption).
        - apply show_int_no. reflexivity.
        - apply ends_okb_spec. pose proof (show_int_nows (c_meter c)) as W. split; [apply nows_head; exact W|apply nows_head; rewrite forallb_rev; exact W].
        - apply ends_okb_spec. split; assumption.
        - apply (body_no body 58%Z Bch). reflexivity. }
      pose proof (denote_chart_cvalue cd keys (c_meter c) rd _ op notes ns Hf K1 (parse_int_show_int _) (radar_parse rn rd Hrn R1) D Ho) as E.
      rewrite E in DC. injection DC as <-. cbn [d_rows]. split; [apply Forall_rev; exact (R4 _ _ _ _ _ _ _ D)|]. split; assumption.
    Qed.
  End OneChart.

  (* ---- the header ---- *)
  Definition mlines (txt : list text) (off : Q) (items : list (Q * Q)) (ss sl : Q) (sel : bool) : list (list tok) :=
    let t i := TLit (nth i txt []) in
    [ [L "#TITLE:"; t 0%nat; L ";"]; [L "#SUBTITLE:"; t 1%nat; L ";"]; [L "#ARTIST:"; t 2%nat; L ";"];
      [L "#TITLETRANSLIT:"; t 3%nat; L ";"]; [L "#SUBTITLETRANSLIT:"; t 4%nat; L ";"];
      [L "#ARTISTTRANSLIT:"; t 5%nat; L ";"]; [L "#GENRE:"; t 6%nat; L ";"]; [L "#CREDIT:"; t 7%nat; L ";"];
      [L "#BANNER:"; t 8%nat; L ";"]; [L "#BACKGROUND:"; t 9%nat; L ";"]; [L "#LYRICSPATH:"; t 10%nat; L ";"];
      [L "#CDTITLE:"; t 11%nat; L ";"]; [L "#MUSIC:"; t 12%nat; L ";"];
      [L "#OFFSET:"; TNum (Qred (- (off / 1000))); L ";"];
      (L "#BPMS:" :: concat (intersperse [TLit [44%Z; 10%Z]] (map (fun bq : Q * Q => [TRnd2 (fst bq); L "="; TNum (snd bq)]) items))) ++ [L ";"];
      [L "#STOPS:;"];
      [L "#SAMPLESTART:"; TNum (Qred (ss / 1000)); L ";"];
      [L "#SAMPLELENGTH:"; TNum (Qred (sl / 1000)); L ";"];
      [L "#DISPLAYBPM:"; t 13%nat; L ";"];
      (if sel then [L "#SELECTABLE:YES;"] else [L "#SELECTABLE:NO;"]);
      [L "#BGCHANGES:"; t 14%nat; L ";"]; [L "#FGCHANGES:"; t 15%nat; L ";"] ].
  Definition hlist (txt : list text) (n_off bpmv n_ss n_sl : text) (sel : bool) : list (text * text) :=
    let t i := nth i txt [] in
    [ (tx "TITLE", t 0%nat); (tx "SUBTITLE", t 1%nat); (tx "ARTIST", t 2%nat); (tx "TITLETRANSLIT", t 3%nat);
      (tx "SUBTITLETRANSLIT", t 4%nat); (tx "ARTISTTRANSLIT", t 5%nat); (tx "GENRE", t 6%nat); (tx "CREDIT", t 7%nat);
      (tx "BANNER", t 8%nat); (tx "BACKGROUND", t 9%nat); (tx "LYRICSPATH", t 10%nat); (tx "CDTITLE", t 11%nat); (tx "MUSIC", t 12%nat);
      (tx "OFFSET", n_off); (tx "BPMS", bpmv); (tx "STOPS", []); (tx "SAMPLESTART", n_ss); (tx "SAMPLELENGTH", n_sl);
      (tx "DISPLAYBPM", t 13%nat); (tx "SELECTABLE", tx (if sel then "YES" else "NO")); (tx "BGCHANGES", t 14%nat); (tx "FGCHANGES", t 15%nat) ].

  Lemma header_render txt off items ss sl sel tt :
    Forall2 (fun ln t => match_toks 0 ln t = true) (mlines txt off items ss sl sel) tt ->
    exists n_off x_off bp pairs n_ss x_ss n_sl x_sl,
      tt = map hline (hlist txt n_off (join [44%Z; 10%Z] (map ptext bp)) n_ss n_sl sel)
      /\ (numeral n_off = true /\ parse_decimal n_off = Some x_off /\ x_off == Qred (- (off / 1000)))
      /\ (numeral n_ss = true /\ parse_decimal n_ss = Some x_ss /\ x_ss == Qred (ss / 1000))
      /\ (numeral n_sl = true /\ parse_decimal n_sl = Some x_sl /\ x_sl == Qred (sl / 1000))
      /\ Forall2 pair_ok bp pairs
      /\ Forall2 (fun (p bq : Q * Q) => is_millionth (fst p) = true /\ Qabs (fst p - fst bq) <= 1 # 2000000 /\ snd p == snd bq) pairs items.
  Proof.
    unfold mlines. intro F.
    inversion F as [|l1 t1 ? r1 H1 F1]; subst. inversion F1 as [|l2 t2 ? r2 H2 F2]; subst. inversion F2 as [|l3 t3 ? r3 H3 F3]; subst. inversion F3 as [|l4 t4 ? r4 H4 F4]; subst. inversion F4 as [|l5 t5 ? r5 H5 F5]; subst. inversion F5 as [|l6 t6 ? r6 H6 F6]; subst. inversion F6 as [|l7 t7 ? r7 H7 F7]; subst. inversion F7 as [|l8 t8 ? r8 H8 F8]; subst. inversion F8 as [|l9 t9 ? r9 H9 F9]; subst. inversion F9 as [|l10 t10 ? r10 H10 F10]; subst. inversion F10 as [|l11 t11 ? r11 H11 F11]; subst. inversion F11 as [|l12 t12 ? r12 H12 F12]; subst. inversion F12 as [|l13 t13 ? r13 H13 F13]; subst. inversion F13 as [|l14 t14 ? r14 H14 F14]; subst. inversion F14 as [|l15 t15 ? r15 H15 F15]; subst. inversion F15 as [|l16 t16 ? r16 H16 F16]; subst. inversion F16 as [|l17 t17 ? r17 H17 F17]; subst. inversion F17 as [|l18 t18 ? r18 H18 F18]; subst. inversion F18 as [|l19 t19 ? r19 H19 F19]; subst. inversion F19 as [|l20 t20 ? r20 H20 F20]; subst. inversion F20 as [|l21 t21 ? r21 H21 F21]; subst. inversion F21 as [|l22 t22 ? r22 H22 F22]; subst.
    inversion F22; subst. clear F F1 F2 F3 F4 F5 F6 F7 F8 F9 F10 F11 F12 F13 F14 F15 F16 F17 F18 F19 F20 F21 F22.
    apply mtl3 in H1, H2, H3, H4, H5, H6, H7, H8, H9, H10, H11, H12, H13, H19, H21, H22.
    apply mtn3 in H14. destruct H14 as [n_off [x_off [E14 [A1 [A2 A3]]]]].
    apply mtn3 in H17. destruct H17 as [n_ss [x_ss [E17 [B1 [B2 B3]]]]].
    apply mtn3 in H18. destruct H18 as [n_sl [x_sl [E18 [C1 [C2 C3]]]]].
    cbn [app] in H15. apply mt_lit in H15. destruct H15 as [s15 [E15 H15]]. apply mt_pairs in H15.
    destruct H15 as [bp [pairs [s15' [E15' [H15 [P1 P2]]]]]]. apply mtl1 in H15.
    apply mtl1 in H16.
    assert (E20: t20 = tx (if sel then "#SELECTABLE:YES;" else "#SELECTABLE:NO;")) by (destruct sel; apply mtl1 in H20; exact H20).
    subst. exists n_off, x_off, bp, pairs, n_ss, x_ss, n_sl, x_sl.
    split; [destruct sel; reflexivity|]. repeat split; assumption.
  Qed.

  (* ---- from the items to the denotation ---- *)
  Definition hfields (hl : list (text * text)) : list (text * text) := map (fun tv : text * text => (35%Z :: fst tv, strip (snd tv))) hl.
  Definition not_notes (tv : text * text) : Prop := text_eqb (35%Z :: fst tv) (tx "#NOTES") = false.
  Lemma filter_hdr hl : Forall not_notes hl ->
    filter (fun it : text * text => negb (is_notes it)) (map (fun tv : text * text => (35%Z :: fst tv, snd tv)) hl)
    = map (fun tv : text * text => (35%Z :: fst tv, snd tv)) hl
    /\ filter is_notes (map (fun tv : text * text => (35%Z :: fst tv, snd tv)) hl) = [].
  Proof.
    induction 1 as [|tv hl H _ [IH1 IH2]]; [split; reflexivity|]. cbn [map filter].
    assert (E: is_notes (35%Z :: fst tv, snd tv) = false) by exact H. rewrite E.
    cbn [negb]. rewrite IH1, IH2. split; reflexivity.
  Qed.
  Lemma filter_charts (cds : list cdata) :
    filter (fun it : text * text => negb (is_notes it)) (map (fun cd => (tx "#NOTES", cvalue cd)) cds) = []
    /\ filter is_notes (map (fun cd => (tx "#NOTES", cvalue cd)) cds) = map (fun cd => (tx "#NOTES", cvalue cd)) cds.
  Proof.
    induction cds as [|cd r [IH1 IH2]]; [split; reflexivity|]. cbn [map filter].
    assert (E: is_notes (tx "#NOTES", cvalue cd) = true) by reflexivity. rewrite E.
    cbn [negb]. rewrite IH1, IH2. split; reflexivity.
  Qed.
  Lemma hlist_not_notes txt a b c d sel : Forall not_notes (hlist txt a b c d sel).
  Proof. unfold hlist. repeat (constructor; [reflexivity|]). constructor. Qed.

  Lemma sm_denote_items txt items offv bpmv off pairs cs :
    items_go (split_on 59 (strip_comments txt)) = Some items ->
    let fields := map (fun it : text * text => (fst it, strip (snd it))) (filter (fun it => negb (is_notes it)) items) in
    lookup_last (tx "#OFFSET") fields None = Some offv -> lookup_last (tx "#BPMS") fields None = Some bpmv ->
    parse_decimal offv = Some off -> map_opt (fun p => parse_pair (strip p)) (split_on 44 bpmv) = Some pairs ->
    lookup_last (tx "#STOPS") fields None = Some [] ->
    match tempo_script pairs with c :: _ => Qeq_bool (s_b (bs_snap c)) 0 && (s_m (bs_snap c) =? 0)%Z | [] => false end = true ->
    forallb (fun p : Q * Q => Qlt_bool 0 (snd p)) pairs = true ->
    map_opt (fun it : text * text => denote_chart (snd it) (beat_time (Qred (- (off * 1000))) (tempo_script pairs))) (filter is_notes items) = Some cs ->
    sm_denote txt = Some (mkDf fields (Qred (- (off * 1000)))
                               (map (fun p : Q * Q => (fst p, snd p, beat_time (Qred (- (off * 1000))) (tempo_script pairs) (fst p))) (sort_by pair_lt pairs)) cs).
  Proof.
    intros H fields H0 H1 H2 H3 H4 H5 H6 H7. unfold sm_denote. rewrite H. cbv zeta. fold fields. rewrite H0, H1, H2, H3, H4, H5, H6. cbn [andb]. rewrite H7. reflexivity.
  Qed.

  Lemma hl_lookups txt n_off bpmv n_ss n_sl sel :
    let f := hfields (hlist txt n_off bpmv n_ss n_sl sel) in
    lookup_last (tx "#OFFSET") f None = Some (strip n_off) /\ lookup_last (tx "#BPMS") f None = Some (strip bpmv)
    /\ lookup_last (tx "#STOPS") f None = Some [] /\ lookup_last (tx "#SAMPLESTART") f None = Some (strip n_ss)
    /\ lookup_last (tx "#SAMPLELENGTH") f None = Some (strip n_sl)
    /\ lookup_last (tx "#SELECTABLE") f None = Some (tx (if sel then "YES" else "NO")).
  Proof. cbv zeta. repeat split; try reflexivity. destruct sel; reflexivity. Qed.
  Lemma hl_lookup_text txt n_off bpmv n_ss n_sl sel i : (i < 16)%nat ->
    lookup_last (nth i text_field_tags []) (hfields (hlist txt n_off bpmv n_ss n_sl sel)) None = Some (strip (nth i txt [])).
  Proof. intro H. do 16 (destruct i as [|i]; [reflexivity|]). lia. Qed.

  Lemma forallb2_nth {A B} (f : A -> B -> bool) (a : list A) (b : list B) da db : length a = length b ->
    (forall i, (i < length a)%nat -> f (nth i a da) (nth i b db) = true) -> forallb2 f a b = true.
  Proof.
    revert b. induction a as [|x a IH]; intros [|y b] Hl H; cbn [length] in Hl; try discriminate; [reflexivity|]. cbn [forallb2].
    pose proof (H 0%nat ltac:(cbn; lia)) as H0. cbn [nth] in H0. rewrite H0. cbn [andb]. apply IH; [lia|]. intros i Hi. apply (H (Datatypes.S i)). cbn. lia.
  Qed.
  Lemma tame_nth txt i : forallb tame_str txt = true -> tame_str (nth i txt []) = true.
  Proof.
    intro H. destruct (Nat.lt_ge_cases i (length txt)) as [L|G].
    - rewrite forallb_forall in H. apply H. apply nth_In. exact L.
    - rewrite nth_overflow by exact G. reflexivity.
  Qed.
  Lemma map_opt_map {A B} (f : A -> option B) (g : A -> B) l : (forall x, In x l -> f x = Some (g x)) -> map_opt f l = Some (map g l).
  Proof.
    induction l as [|a l IH]; intro H; [reflexivity|]. cbn [map_opt map]. rewrite (H a (or_introl eq_refl)), IH; [reflexivity|].
    intros x Hx. apply H. right. exact Hx.
  Qed.
  Lemma bcs_eqv_refl l : Forall2 bcs_eqv l l.
  Proof. induction l as [|c l IH]; constructor; [|exact IH]. unfold bcs_eqv, ssim. repeat split; reflexivity. Qed.

  (* ---- values that may stand in a header item ---- *)
  Definition good_val (v : text) : Prop := ~ In 59%Z v /\ contains (tx "//") v = false /\ head_nows (rev v).
  Lemma good_tame v : tame_str v = true -> good_val v.
  Proof.
    intro H. destruct (tame_parts v H) as [A [_ [_ [B C]]]]. split; [exact A|]. split; [exact B|].
    apply strip_fix_ends in C. apply ends_okb_spec in C. apply C.
  Qed.
  Lemma good_num n x : numeral n = true -> parse_decimal n = Some x -> good_val n.
  Proof.
    intros N P. split; [apply (numeral_no n 59%Z N); reflexivity|]. split; [apply no47_clean; apply (numeral_no n 47%Z N); reflexivity|].
    apply (numeral_ends n x N P).
  Qed.
  Lemma entry_ok tag v : ~ In 47%Z tag -> ~ In 59%Z tag -> ~ In 58%Z tag -> good_val v -> h_clean (tag, v) /\ h_ok (tag, v).
  Proof. intros A B C [D [E F]]. unfold h_clean, h_ok. cbn [fst snd]. repeat split; assumption. Qed.
  Lemma hlist_ok txt n_off bpmv n_ss n_sl sel : (forall i, good_val (nth i txt [])) -> good_val n_off -> good_val bpmv -> good_val n_ss -> good_val n_sl ->
    Forall (fun tv => h_clean tv /\ h_ok tv) (hlist txt n_off bpmv n_ss n_sl sel).
  Proof.
    intros Hv H1 H2 H3 H4. unfold hlist.
    assert (G0: good_val []) by (split; [intros []|split; [reflexivity|exact I]]).
    assert (G1: good_val (tx (if sel then "YES" else "NO"))) by (destruct sel; (split; [apply notin_dec; reflexivity|split; reflexivity])).
    repeat (constructor; [apply entry_ok; [apply notin_dec; reflexivity|apply notin_dec; reflexivity|apply notin_dec; reflexivity|first [apply Hv|assumption]]|]).
    constructor.
  Qed.

  Lemma forall2_with_in {A B} (R : A -> B -> Prop) l r : Forall2 R l r -> Forall2 (fun a b => In a l /\ R a b) l r.
  Proof.
    induction 1 as [|a b l r H _ IH]; constructor; [split; [left; reflexivity|exact H]|].
    apply (forall2_impl _ _ _ _ (fun x y G => conj (or_intror (proj1 G)) (proj2 G)) IH).
  Qed.

  Lemma charts_render (bodyof : smchart -> text) maps tss :
    Forall2 (Forall2 (fun ln t => match_toks 0 ln t = true)) (map (fun c => clines c (bodyof c)) maps) tss ->
    exists cds, tss = map ctexts cds
      /\ Forall2 (fun c cd => exists rn rd, cd = mk_cd c (bodyof c) rn /\ Forall2 rad_ok rn rd /\ Forall2 (fun x r => x == r) rd (c_radar c)) maps cds.
  Proof.
    revert tss. induction maps as [|c maps IH]; intros tss F; cbn [map] in F.
    - inversion F; subst. exists []. split; [reflexivity|constructor].
    - inversion F as [|? ts ? tss' H F']; subst. destruct (IH tss' F') as [cds [-> G]].
      destruct (chart_render c (bodyof c) ts H) as [rn [rd [-> [R1 R2]]]].
      exists (mk_cd c (bodyof c) rn :: cds). split; [reflexivity|]. constructor; [|exact G]. exists rn, rd. repeat split; assumption.
  Qed.

  (* ================================================================ MAIN *)
  (* the concrete shape of every exact rendering: 22 header lines "#TAG:value;" and 9 lines per chart, joined by newlines;
     the only free parts are the numerals (each parses to the written value) *)
  Definition text_shape (s : smset) (txt : text) : Prop :=
    exists n_off x_off bp pairs n_ss x_ss n_sl x_sl cds,
      txt = join nl (map hline (hlist (s_txt s) n_off (join [44%Z; 10%Z] (map ptext bp)) n_ss n_sl (s_sel s)) ++ concat (map ctexts cds))
      /\ (numeral n_off = true /\ parse_decimal n_off = Some x_off
          /\ match s_offset s with Some off => x_off == Qred (- (off / 1000)) | None => False end)
      /\ (numeral n_ss = true /\ parse_decimal n_ss = Some x_ss /\ x_ss == Qred (s_sstart s / 1000))
      /\ (numeral n_sl = true /\ parse_decimal n_sl = Some x_sl /\ x_sl == Qred (s_slen s / 1000))
      /\ bp <> [] /\ Forall2 pair_ok bp pairs
      /\ Forall2 (fun c cd => exists body rn rd, chart_body cf current c = Some body /\ cd = mk_cd c body rn
                                /\ Forall2 rad_ok rn rd /\ Forall2 (fun x r => x == r) rd (c_radar c)) (s_maps s) cds.

  Theorem sm_write_denotes_with s : c03_dom_with cf chartdom s = true ->
    exists toks, sm_write cf current s = Some toks /\
      forall txt, match_toks 0 toks txt = true ->
        text_shape s txt /\
        exists d, sm_denote txt = Some d /\ header_roundtrip 0 s d = true
          /\ exists init l, match s_maps s with c0 :: _ => tempo_script_of cf (c_bpms c0) = Some (init, l) | [] => False end
              /\ Forall2 (fun dc c => header_match 0 dc c = true /\ Pc init l c (d_notes dc)) (d_charts d) (s_maps s)
              /\ match s_maps s with c0 :: _ => tempo_denotes d (c_bpms c0) init l | [] => False end.
  Proof.
    intro Hdom.
    destruct (set_dom_parts s Hdom) as [c0 [cs [init [l [off [Em [Et [Htx [Hlen [Htd [Eo [Eoff Hch]]]]]]]]]]]].
    set (rows := c_bpms c0) in *.
    set (bodyof := fun c => match chart_body cf current c with Some b => b | None => [] end).
    assert (Hbody: forall c, In c (s_maps s) -> chart_body cf current c = Some (bodyof c)).
    { intros c Hc. rewrite forallb_forall in Hch.
      destruct (chart_body_exists rows init l Et Htd l init (bcs_eqv_refl l) (Qeq_refl _) c0 c eq_refl (Hch c Hc)) as [b Hb].
      unfold bodyof. rewrite Hb. reflexivity. }
    destruct (tdom_parts cf rows init l Htd) as (_ & _ & _ & _ & _ & _ & _ & _ & _ & D10).
    set (ros := map (fun b : Q * Q * Q => fst (fst b)) rows).
    assert (Hros: forallb (time_okb cf init l) ros = true).
    { unfold ros. apply forallb_forall. intros o Ho. apply in_map_iff in Ho. destruct Ho as [r [<- Hr]]. rewrite forallb_forall in D10. apply D10. exact Hr. }
    destruct (beats_of_times cf Hok rows init l Et Htd ros Hros) as [bb [B1 [B2 _]]].
    assert (Ebb: bb = map (spec_beat init l) ros) by (apply forall2_eq_map; apply (forall2_impl _ _ _ _ (fun a b H => proj1 H) B2)).
    set (items := map (fun r : Q * Q * Q => (spec_beat init l (fst (fst r)), snd (fst r))) rows).
    assert (Ep: map (fun p : Q * (Q * Q * Q) => [TRnd2 (fst p); L "="; TNum (snd (fst (snd p)))]) (combine bb rows)
              = map (fun bq : Q * Q => [TRnd2 (fst bq); L "="; TNum (snd bq)]) items).
    { rewrite Ebb. unfold ros, items. rewrite map_map, combine_map_self, !map_map. reflexivity. }
    assert (Hmeta: write_metadata cf current s = Some (mlines (s_txt s) off items (s_sstart s) (s_slen s) (s_sel s))).
    { unfold write_metadata. rewrite Em, Eo. fold rows. fold ros. match goal with |- match ?X with _ => _ end = _ => replace X with (Some bb) by (symmetry; exact B1) end. cbv zeta. rewrite Ep. reflexivity. }
    assert (Hcharts: map_opt (write_chart cf current) (s_maps s) = Some (map (fun c => clines c (bodyof c)) (s_maps s))).
    { apply map_opt_map. intros c Hc. apply write_chart_eq. apply Hbody. exact Hc. }
    eexists. split; [unfold sm_write; rewrite Hmeta, Hcharts; reflexivity|].
    intros txt Hm.
    rewrite <- (app_nil_r (concat _)) in Hm. apply mt_sep in Hm. destruct Hm as [texts [s' [F [Etxt Hr]]]]. apply mt_nil in Hr. subst s'. rewrite app_nil_r in Etxt.
    apply Forall2_app_inv_l in F. destruct F as [t1 [t2 [F1 [F2 Et12]]]].
    destruct (header_render _ _ _ _ _ _ _ F1) as [n_off [x_off [bp [pairs [n_ss [x_ss [n_sl [x_sl [Et1 [[A1 [A2 A3]] [[S1 [S2 S3]] [[L1 [L2 L3]] [P1 P2]]]]]]]]]]]]].
    destruct (forall2_concat_inv _ _ _ F2) as [tss [Et2 F2']].
    destruct (charts_render bodyof (s_maps s) tss F2') as [cds [Etss G]].
    (* the script the text denotes *)
    set (script := tempo_script pairs). set (beat0 := Qred (- (x_off * 1000))).
    assert (HP: Forall2 (fun (p : Q * Q) (r : Q * Q * Q) =>
                 is_millionth (fst p) = true /\ Qabs (fst p - spec_beat init l (fst (fst r))) <= 1 # 2000000 /\ snd p == snd (fst r)) pairs rows).
    { unfold items in P2. apply forall2_map_r in P2. exact P2. }
    destruct (written_script cf Hok rows init l Et Htd pairs HP) as [Hsc Hpos]. fold script in Hsc.
    assert (Hb0: beat0 == init).
    { unfold beat0. rewrite Qred_correct, A3, Qred_correct, <- Eoff. field. }
    assert (Hrows_ne: rows <> []).
    { intro E. unfold tempo_script_of in Et. fold rows in Et. rewrite E in Et. discriminate. }
    assert (Hbp: bp <> []).
    { intro E. subst bp. inversion P1; subst. inversion HP; subst. congruence. }
    (* charts *)
    assert (Hgen: forall maps cds',
              Forall2 (fun c cd => In c (s_maps s) /\ exists rn rd, cd = mk_cd c (bodyof c) rn /\ Forall2 rad_ok rn rd /\ Forall2 (fun x r => x == r) rd (c_radar c)) maps cds' ->
              Forall cd_clean cds' /\ Forall cd_ok cds'
              /\ exists dcs, map_opt (fun it : text * text => denote_chart (snd it) (beat_time beat0 script)) (map (fun cd => (tx "#NOTES", cvalue cd)) cds') = Some dcs
                             /\ Forall2 (fun dc c => header_match 0 dc c = true /\ Pc init l c (d_notes dc)) dcs maps).
    { intros maps cds' G'. induction G' as [|c cd maps cds' [Hc [rn [rd [-> [R1 R2]]]]] _ IH].
      - split; [constructor|]. split; [constructor|]. exists []. split; [reflexivity|constructor].
      - destruct IH as [I1 [I2 [dcs [I3 I4]]]]. rewrite forallb_forall in Hch.
        destruct (chart_item_denotes rows init l Et Htd script beat0 Hsc Hb0 c0 c eq_refl (Hch c Hc) (bodyof c) rn rd (Hbody c Hc) R1 R2) as [C1 [C2 [dc [C3 C4]]]].
        split; [constructor; assumption|]. split; [constructor; assumption|]. exists (dc :: dcs). split; [|constructor; assumption].
        cbn [map map_opt snd]. rewrite C3, I3. reflexivity. }
    pose proof (Hgen (s_maps s) cds (forall2_with_in _ _ _ G)) as Hcds.
    destruct Hcds as [CC1 [CC2 [dcs [CD1 CD2]]]].
    (* header *)
    set (bpmv := join [44%Z; 10%Z] (map ptext bp)).
    set (hl := hlist (s_txt s) n_off bpmv n_ss n_sl (s_sel s)).
    destruct (bpms_text_ok bp pairs Hbp P1) as [Q1 [Q2 [Q3 Q4]]]. fold bpmv in Q1, Q2, Q3, Q4.
    assert (Hhl: Forall (fun tv => h_clean tv /\ h_ok tv) hl).
    { apply hlist_ok.
      - intro i. apply good_tame. apply tame_nth. exact Htx.
      - apply (good_num n_off x_off A1 A2).
      - split; [exact Q1|]. split; [apply no47_clean; exact Q2|exact Q4].
      - apply (good_num n_ss x_ss S1 S2).
      - apply (good_num n_sl x_sl L1 L2). }
    assert (Hcds_ne: cds <> []).
    { intro E. subst cds. inversion G; subst. rewrite Em in *. discriminate. }
    assert (Etext: txt = join nl (map hline hl ++ concat (map ctexts cds))).
    { rewrite Etxt, Et12, Et1, Et2, Etss. reflexivity. }
    pose proof (file_items hl cds ltac:(discriminate) Hcds_ne
                  (Forall_impl _ (fun tv H => proj1 H) Hhl) CC1 (Forall_impl _ (fun tv H => proj2 H) Hhl) CC2) as Hitems.
    rewrite <- Etext in Hitems.
    set (itemsL := map (fun tv : text * text => (35%Z :: fst tv, snd tv)) hl ++ map (fun cd => (tx "#NOTES", cvalue cd)) cds) in *.
    assert (Efields: map (fun it : text * text => (fst it, strip (snd it))) (filter (fun it => negb (is_notes it)) itemsL) = hfields hl).
    { unfold itemsL. rewrite filter_app. destruct (filter_hdr hl (hlist_not_notes _ _ _ _ _ _)) as [E1 _]. destruct (filter_charts cds) as [E2 _].
      unfold text in *. rewrite E1, E2, app_nil_r. unfold hfields. rewrite map_map. reflexivity. }
    assert (Enotes: filter is_notes itemsL = map (fun cd => (tx "#NOTES", cvalue cd)) cds).
    { unfold itemsL. rewrite filter_app. destruct (filter_hdr hl (hlist_not_notes _ _ _ _ _ _)) as [_ E1]. destruct (filter_charts cds) as [_ E2].
      unfold text in *. rewrite E1, E2. reflexivity. }
    destruct (hl_lookups (s_txt s) n_off bpmv n_ss n_sl (s_sel s)) as [K1 [K2 [K3 [K4 [K5 K6]]]]]. fold hl in K1, K2, K3, K4, K5, K6.
    assert (Sb: strip bpmv = bpmv) by (apply strip_id; assumption).
    rewrite (numeral_strip _ A1) in K1. rewrite Sb in K2. rewrite (numeral_strip _ S1) in K4. rewrite (numeral_strip _ L1) in K5.
    pose proof (sm_denote_items txt itemsL n_off bpmv x_off pairs dcs Hitems) as SD. cbv zeta in SD. rewrite Efields, Enotes in SD.
    specialize (SD K1 K2 A2 (bpms_parse bp pairs Hbp P1) K3 (script_first_ok cf rows init l Et Htd script Hsc) Hpos CD1).
    split.
    { exists n_off, x_off, bp, pairs, n_ss, x_ss, n_sl, x_sl, cds. split; [exact Etext|]. rewrite Eo.
      split; [repeat split; assumption|]. split; [repeat split; assumption|]. split; [repeat split; assumption|].
      split; [exact Hbp|]. split; [exact P1|].
      refine (forall2_impl _ _ _ _ _ (forall2_with_in _ _ _ G)). intros c cd [Hc [rn [rd [E [R1 R2]]]]].
      exists (bodyof c), rn, rd. split; [apply Hbody; exact Hc|]. split; [exact E|]. split; assumption. }
    eexists. split; [exact SD|]. split; [|exists init, l; split; [rewrite Em; exact Et|split; [exact CD2|]]].
    2:{ rewrite Em. unfold tempo_denotes. cbn [d_tempo]. split.
        - rewrite map_length, <- (Permutation_length (sort_by_perm pair_lt pairs)). assert (FL: forall (A B : Type) (R : A -> B -> Prop) la lb, Forall2 R la lb -> length la = length lb) by (intros A B R la lb F; induction F; cbn; congruence). exact (FL _ _ _ _ _ HP).
        - intros r Hr. destruct (forall2_in_r _ _ _ _ HP Hr) as [p [Hp [M [C E]]]].
          exists (fst p, snd p, beat_time (Qred (- (x_off * 1000))) (tempo_script pairs) (fst p)). split.
          + apply in_map_iff. exists p. split; [reflexivity|]. apply (Permutation_in _ (sort_by_perm pair_lt pairs)). exact Hp.
          + cbn [fst snd].
            assert (Eb: fst p == spec_beat init l (fst (fst r))).
            { apply millionth_eq; [exact M|apply (row_beat_millionth cf Hok rows init l Et Htd r Hr)|exact C]. }
            split; [exact Eb|]. split; [exact E|].
            assert (Hro: In (fst (fst r)) ros) by (unfold ros; apply (in_map (fun b : Q * Q * Q => fst (fst b))); exact Hr).
            destruct (forall2_in_l _ _ _ _ B2 Hro) as [b [_ [Eb2 Hf]]]. subst b.
            apply (beat_time_exact cf rows init l Et Htd script beat0 _ _ _ Hsc Hb0 Hf Eb). }
    (* header round trip *)
    unfold header_roundtrip. cbn [d_items d_beat0].
    assert (R1: forallb2 (fun tag v => match lookup_last tag (hfields hl) None with Some x => text_eqb x v | None => false end) text_field_tags (s_txt s) = true).
    { apply (forallb2_nth _ _ _ [] []); [transitivity 16%nat; [reflexivity|symmetry; exact Hlen]|]. intros i Hi. change (length text_field_tags) with 16%nat in Hi.
      unfold hl. rewrite (hl_lookup_text _ _ _ _ _ _ i Hi). destruct (tame_parts _ (tame_nth (s_txt s) i Htx)) as [_ [_ [_ [_ E]]]]. rewrite E. apply text_eqb_refl. }
    rewrite R1, Eo. cbn [andb].
    assert (R2: q_close 0 beat0 off = true) by (apply q_close0; rewrite Hb0; symmetry; exact Eoff).
    fold beat0. rewrite R2. cbn [andb]. unfold field_num. cbn [d_items]. rewrite K4, K5, K6, S2, L2.
    assert (R3: q_close 0 (x_ss * 1000) (s_sstart s) = true) by (apply q_close0; rewrite S3, Qred_correct; field).
    assert (R4: q_close 0 (x_sl * 1000) (s_slen s) = true) by (apply q_close0; rewrite L3, Qred_correct; field).
    rewrite R3, R4. cbn [andb]. apply text_eqb_refl.
  Qed.

  (* ---- what the READER's domain (Formats/SMReadDom.v) needs to know about a written text ---- *)
  Definition reader_facts (s : smset) (txt : text) : Prop :=
    exists n_off x_off bp pairs n_ss x_ss n_sl x_sl cds dcs init l c0 cs,
      let bpmv := join [44%Z; 10%Z] (map ptext bp) in
      let hl := hlist (s_txt s) n_off bpmv n_ss n_sl (s_sel s) in
      let beat0 := Qred (- (x_off * 1000)) in
      s_maps s = c0 :: cs /\ tempo_script_of cf (c_bpms c0) = Some (init, l)
      /\ forallb tame_str (s_txt s) = true
      /\ txt = join nl (map hline hl ++ concat (map ctexts cds))
      /\ (numeral n_off = true /\ parse_decimal n_off = Some x_off) /\ (numeral n_ss = true /\ parse_decimal n_ss = Some x_ss)
      /\ (numeral n_sl = true /\ parse_decimal n_sl = Some x_sl)
      /\ bp <> [] /\ Forall2 pair_ok bp pairs
      /\ Forall2 (fun (p : Q * Q) (r : Q * Q * Q) => fst p == spec_beat init l (fst (fst r))) pairs (c_bpms c0)
      /\ sm_denote txt = Some (mkDf (hfields hl) beat0
                                    (map (fun p : Q * Q => (fst p, snd p, beat_time beat0 (tempo_script pairs) (fst p))) (sort_by pair_lt pairs)) dcs)
      /\ Forall (fun dc => Forall (fun n => (n mod 4 = 0)%Z) (d_rows dc)) dcs
      /\ Forall2 (fun c cd => exists body rn rd, cd = mk_cd c body rn /\ Forall2 rad_ok rn rd /\ forallb bodych body = true
                               /\ (body = [] \/ (head_nows body /\ head_nows (rev body)))
                               /\ chart_common_domb cf c0 c init l = true) (s_maps s) cds.

  Hypothesis Hrows4 : forall c0 c init l body, chartdom c0 c init l = true -> tempo_script_of cf (c_bpms c0) = Some (init, l) ->
    tempo_domb cf (c_bpms c0) init l = true -> chart_body cf current c = Some body ->
    forall keys' time' op acc op' acc' ns,
      denote_measures (match body with [] => [] | _ => split_on 44 body end) keys' 0 time' op acc [] = Some (op', acc', ns) ->
      Forall (fun n => (n mod 4 = 0)%Z) ns.

  Theorem sm_write_reader_facts s : c03_dom_with cf chartdom s = true ->
    exists toks, sm_write cf current s = Some toks /\ forall txt, match_toks 0 toks txt = true -> reader_facts s txt.
  Proof.
    intro Hdom.
    destruct (set_dom_parts s Hdom) as [c0 [cs [init [l [off [Em [Et [Htx [Hlen [Htd [Eo [Eoff Hch]]]]]]]]]]]].
    set (rows := c_bpms c0) in *.
    set (bodyof := fun c => match chart_body cf current c with Some b => b | None => [] end).
    assert (Hbody: forall c, In c (s_maps s) -> chart_body cf current c = Some (bodyof c)).
    { intros c Hc. rewrite forallb_forall in Hch.
      destruct (chart_body_exists rows init l Et Htd l init (bcs_eqv_refl l) (Qeq_refl _) c0 c eq_refl (Hch c Hc)) as [b Hb].
      unfold bodyof. rewrite Hb. reflexivity. }
    destruct (tdom_parts cf rows init l Htd) as (_ & _ & _ & _ & _ & _ & _ & _ & _ & D10).
    set (ros := map (fun b : Q * Q * Q => fst (fst b)) rows).
    assert (Hros: forallb (time_okb cf init l) ros = true).
    { unfold ros. apply forallb_forall. intros o Ho. apply in_map_iff in Ho. destruct Ho as [r [<- Hr]]. rewrite forallb_forall in D10. apply D10. exact Hr. }
    destruct (beats_of_times cf Hok rows init l Et Htd ros Hros) as [bb [B1 [B2 _]]].
    assert (Ebb: bb = map (spec_beat init l) ros) by (apply forall2_eq_map; apply (forall2_impl _ _ _ _ (fun a b H => proj1 H) B2)).
    set (items := map (fun r : Q * Q * Q => (spec_beat init l (fst (fst r)), snd (fst r))) rows).
    assert (Ep: map (fun p : Q * (Q * Q * Q) => [TRnd2 (fst p); L "="; TNum (snd (fst (snd p)))]) (combine bb rows)
              = map (fun bq : Q * Q => [TRnd2 (fst bq); L "="; TNum (snd bq)]) items).
    { rewrite Ebb. unfold ros, items. rewrite map_map, combine_map_self, !map_map. reflexivity. }
    assert (Hmeta: write_metadata cf current s = Some (mlines (s_txt s) off items (s_sstart s) (s_slen s) (s_sel s))).
    { unfold write_metadata. rewrite Em, Eo. fold rows. fold ros. match goal with |- match ?X with _ => _ end = _ => replace X with (Some bb) by (symmetry; exact B1) end. cbv zeta. rewrite Ep. reflexivity. }
    assert (Hcharts: map_opt (write_chart cf current) (s_maps s) = Some (map (fun c => clines c (bodyof c)) (s_maps s))).
    { apply map_opt_map. intros c Hc. apply write_chart_eq. apply Hbody. exact Hc. }
    eexists. split; [unfold sm_write; rewrite Hmeta, Hcharts; reflexivity|].
    intros txt Hm.
    rewrite <- (app_nil_r (concat _)) in Hm. apply mt_sep in Hm. destruct Hm as [texts [s' [F [Etxt Hr]]]]. apply mt_nil in Hr. subst s'. rewrite app_nil_r in Etxt.
    apply Forall2_app_inv_l in F. destruct F as [t1 [t2 [F1 [F2 Et12]]]].
    destruct (header_render _ _ _ _ _ _ _ F1) as [n_off [x_off [bp [pairs [n_ss [x_ss [n_sl [x_sl [Et1 [[A1 [A2 A3]] [[S1 [S2 S3]] [[L1 [L2 L3]] [P1 P2]]]]]]]]]]]]].
    destruct (forall2_concat_inv _ _ _ F2) as [tss [Et2 F2']].
    destruct (charts_render bodyof (s_maps s) tss F2') as [cds [Etss G]].
    (* the script the text denotes *)
    set (script := tempo_script pairs). set (beat0 := Qred (- (x_off * 1000))).
    assert (HP: Forall2 (fun (p : Q * Q) (r : Q * Q * Q) =>
                 is_millionth (fst p) = true /\ Qabs (fst p - spec_beat init l (fst (fst r))) <= 1 # 2000000 /\ snd p == snd (fst r)) pairs rows).
    { unfold items in P2. apply forall2_map_r in P2. exact P2. }
    destruct (written_script cf Hok rows init l Et Htd pairs HP) as [Hsc Hpos]. fold script in Hsc.
    assert (Hb0: beat0 == init).
    { unfold beat0. rewrite Qred_correct, A3, Qred_correct, <- Eoff. field. }
    assert (Hrows_ne: rows <> []).
    { intro E. unfold tempo_script_of in Et. fold rows in Et. rewrite E in Et. discriminate. }
    assert (Hbp: bp <> []).
    { intro E. subst bp. inversion P1; subst. inversion HP; subst. congruence. }
    (* charts *)
    assert (Hgen: forall maps cds',
              Forall2 (fun c cd => In c (s_maps s) /\ exists rn rd, cd = mk_cd c (bodyof c) rn /\ Forall2 rad_ok rn rd /\ Forall2 (fun x r => x == r) rd (c_radar c)) maps cds' ->
              Forall cd_clean cds' /\ Forall cd_ok cds'
              /\ exists dcs, map_opt (fun it : text * text => denote_chart (snd it) (beat_time beat0 script)) (map (fun cd => (tx "#NOTES", cvalue cd)) cds') = Some dcs
                             /\ Forall (fun dc => Forall (fun n => (n mod 4 = 0)%Z) (d_rows dc)) dcs
                             /\ Forall2 (fun c cd => exists body rn rd, cd = mk_cd c body rn /\ Forall2 rad_ok rn rd /\ forallb bodych body = true
                                                     /\ (body = [] \/ (head_nows body /\ head_nows (rev body)))
                                                     /\ chart_common_domb cf c0 c init l = true) maps cds').
    { intros maps cds' G'. induction G' as [|c cd maps cds' [Hc [rn [rd [-> [R1 R2]]]]] _ IH].
      - split; [constructor|]. split; [constructor|]. exists []. split; [reflexivity|]. split; constructor.
      - destruct IH as [I1 [I2 [dcs [I3 [I4 I5]]]]]. rewrite forallb_forall in Hch.
        destruct (chart_item_denotes rows init l Et Htd script beat0 Hsc Hb0 c0 c eq_refl (Hch c Hc) (bodyof c) rn rd (Hbody c Hc) R1 R2) as [C1 [C2 [dc [C3 C4]]]].
        destruct (chart_item_reader rows init l Et Htd script beat0 Hsc Hb0 c0 c eq_refl (Hch c Hc) (bodyof c) rn rd dc (Hbody c Hc) R1 R2
                    (Hrows4 c0 c init l (bodyof c) (Hch c Hc) Et Htd (Hbody c Hc)) C3) as [E1 [E2 E3]].
        split; [constructor; assumption|]. split; [constructor; assumption|]. exists (dc :: dcs). split; [|split].
        + cbn [map map_opt snd]. rewrite C3, I3. reflexivity.
        + constructor; assumption.
        + constructor; [|exact I5]. exists (bodyof c), rn, rd. repeat split; try assumption. apply Hchart_common. apply Hch. exact Hc. }
    pose proof (Hgen (s_maps s) cds (forall2_with_in _ _ _ G)) as Hcds.
    destruct Hcds as [CC1 [CC2 [dcs [CD1 [CD2 CD3]]]]].
    (* header *)
    set (bpmv := join [44%Z; 10%Z] (map ptext bp)).
    set (hl := hlist (s_txt s) n_off bpmv n_ss n_sl (s_sel s)).
    destruct (bpms_text_ok bp pairs Hbp P1) as [Q1 [Q2 [Q3 Q4]]]. fold bpmv in Q1, Q2, Q3, Q4.
    assert (Hhl: Forall (fun tv => h_clean tv /\ h_ok tv) hl).
    { apply hlist_ok.
      - intro i. apply good_tame. apply tame_nth. exact Htx.
      - apply (good_num n_off x_off A1 A2).
      - split; [exact Q1|]. split; [apply no47_clean; exact Q2|exact Q4].
      - apply (good_num n_ss x_ss S1 S2).
      - apply (good_num n_sl x_sl L1 L2). }
    assert (Hcds_ne: cds <> []).
    { intro E. subst cds. inversion G; subst. rewrite Em in *. discriminate. }
    assert (Etext: txt = join nl (map hline hl ++ concat (map ctexts cds))).
    { rewrite Etxt, Et12, Et1, Et2, Etss. reflexivity. }
    pose proof (file_items hl cds ltac:(discriminate) Hcds_ne
                  (Forall_impl _ (fun tv H => proj1 H) Hhl) CC1 (Forall_impl _ (fun tv H => proj2 H) Hhl) CC2) as Hitems.
    rewrite <- Etext in Hitems.
    set (itemsL := map (fun tv : text * text => (35%Z :: fst tv, snd tv)) hl ++ map (fun cd => (tx "#NOTES", cvalue cd)) cds) in *.
    assert (Efields: map (fun it : text * text => (fst it, strip (snd it))) (filter (fun it => negb (is_notes it)) itemsL) = hfields hl).
    { unfold itemsL. rewrite filter_app. destruct (filter_hdr hl (hlist_not_notes _ _ _ _ _ _)) as [E1 _]. destruct (filter_charts cds) as [E2 _].
      unfold text in *. rewrite E1, E2, app_nil_r. unfold hfields. rewrite map_map. reflexivity. }
    assert (Enotes: filter is_notes itemsL = map (fun cd => (tx "#NOTES", cvalue cd)) cds).
    { unfold itemsL. rewrite filter_app. destruct (filter_hdr hl (hlist_not_notes _ _ _ _ _ _)) as [_ E1]. destruct (filter_charts cds) as [_ E2].
      unfold text in *. rewrite E1, E2. reflexivity. }
    destruct (hl_lookups (s_txt s) n_off bpmv n_ss n_sl (s_sel s)) as [K1 [K2 [K3 [K4 [K5 K6]]]]]. fold hl in K1, K2, K3, K4, K5, K6.
    assert (Sb: strip bpmv = bpmv) by (apply strip_id; assumption).
    rewrite (numeral_strip _ A1) in K1. rewrite Sb in K2. rewrite (numeral_strip _ S1) in K4. rewrite (numeral_strip _ L1) in K5.
    pose proof (sm_denote_items txt itemsL n_off bpmv x_off pairs dcs Hitems) as SD. cbv zeta in SD. rewrite Efields, Enotes in SD.
    specialize (SD K1 K2 A2 (bpms_parse bp pairs Hbp P1) K3 (script_first_ok cf rows init l Et Htd script Hsc) Hpos CD1).
    exists n_off, x_off, bp, pairs, n_ss, x_ss, n_sl, x_sl, cds, dcs, init, l, c0, cs. cbv zeta.
    split; [exact Em|]. split; [exact Et|]. split; [exact Htx|]. split; [exact Etext|].
    split; [split; assumption|]. split; [split; assumption|]. split; [split; assumption|]. split; [exact Hbp|]. split; [exact P1|].
    split.
    { assert (FI : forall (A B : Type) (R R' : A -> B -> Prop) la lb, Forall2 R la lb -> (forall a b, In b lb -> R a b -> R' a b) -> Forall2 R' la lb).
      { intros A B R R' la lb F. induction F as [|a b la lb Hab _ IH]; intro K; constructor.
        - apply K; [left; reflexivity|exact Hab].
        - apply IH. intros a' b' Hb'. apply K. right. exact Hb'. }
      refine (FI _ _ _ _ _ _ HP _). intros p r Hr [M [C E]]. apply millionth_eq; [exact M| |exact C].
      exact (row_beat_millionth cf Hok rows init l Et Htd r Hr). }
    split; [exact SD|]. split; [exact CD2|exact CD3].
  Qed.
End FileThm.

(* ================================================================ from permutations to the runner's oracle *)
Lemma note4_lt_eqv x y x' y' : note_eqv x y -> note_eqv x' y' -> note4_lt x x' = note4_lt y y'.
Proof.
  destruct x as [[cx tx_] lx], y as [[cy ty] ly], x' as [[cx' tx'] lx'], y' as [[cy' ty'] ly'].
  unfold note_eqv. cbn [fst snd]. intros [-> [E1 _]] [-> [E2 _]]. unfold note4_lt. f_equal. f_equal.
  destruct (Qlt_bool ty ty') eqn:H.
  - apply Qlt_bool_iff. apply Qlt_bool_iff in H. rewrite E1, E2. exact H.
  - destruct (Qlt_bool tx_ tx') eqn:H2; [|reflexivity]. apply Qlt_bool_iff in H2. rewrite E1, E2 in H2. apply Qlt_bool_iff in H2. congruence.
Qed.
Lemma canon_eqv a b : Forall2 note_eqv a b -> Forall2 note_eqv (canon a) (canon b).
Proof. intro F. unfold canon. apply sort_by_rel; [exact F|]. intros x y x' y' _ _ H H'. apply note4_lt_eqv; assumption. Qed.
Lemma notes_close_eqv a b : Forall2 note_eqv a b -> notes_close (fun _ => 0) a b = true.
Proof.
  induction 1 as [|x y a b [E1 [E2 E3]] _ IH]; [reflexivity|]. destruct x as [[cx tx_] lx], y as [[cy ty] ly]. cbn [fst snd] in *. cbn [notes_close].
  rewrite IH, andb_true_r. subst cy. rewrite Z.eqb_refl, (q_close0 _ _ E2). cbn [andb]. change (0 + 0) with 0. apply (q_close0 _ _ E3).
Qed.
Lemma keys_differ_forall2 a b : Forall2 note_eqv a b -> ForallOrdPairs keys_differ b -> ForallOrdPairs keys_differ a.
Proof.
  induction 1 as [|x y a b Hxy F IH]; intro H; [constructor|]. inversion H as [|? ? Hy Hb]; subst. constructor; [|apply IH; exact Hb].
  apply Forall_forall. intros x' Hx'. destruct (forall2_in_l _ _ _ _ F Hx') as [y' [Hy' E']]. rewrite Forall_forall in Hy. specialize (Hy y' Hy').
  intros [C1 C2]. apply Hy. destruct Hxy as [A1 [A2 _]]. destruct E' as [B1 [B2 _]]. split; [congruence|rewrite <- A2, <- B2; exact C2].
Qed.
Lemma keys_differ_sym x y : keys_differ x y -> keys_differ y x.
Proof. unfold keys_differ. intros H [A B]. apply H. split; [symmetry; exact A|symmetry; exact B]. Qed.
Lemma FOP_in_or {A} (R : A -> A -> Prop) (Rs : forall a b, R a b -> R b a) l x y : ForallOrdPairs R l -> In x l -> In y l -> x = y \/ R x y.
Proof.
  induction 1 as [|a l Ha Hl IH]; intros Hx Hy; [destruct Hx|]. rewrite Forall_forall in Ha.
  destruct Hx as [<-|Hx], Hy as [<-|Hy]; [left; reflexivity|right; apply Ha; exact Hy|right; apply Rs; apply Ha; exact Hx|apply IH; assumption].
Qed.
Lemma keys_differ_cmp x y : keys_differ x y -> note4_lt x y = true \/ note4_lt y x = true.
Proof.
  destruct x as [[cx tx_] lx], y as [[cy ty] ly]. unfold keys_differ, note4_lt. cbn [fst snd]. intro H.
  destruct (Z.lt_trichotomy cx cy) as [L|[E|L]].
  - left. apply orb_true_iff. left. apply Z.ltb_lt. exact L.
  - subst cy. rewrite Z.eqb_refl, Z.ltb_irrefl. cbn [orb andb].
    destruct (Qlt_le_dec tx_ ty) as [L|G]; [left; apply Qlt_bool_iff; exact L|].
    destruct (Qlt_le_dec ty tx_) as [L|G']; [right; apply Qlt_bool_iff; exact L|].
    exfalso. apply H. split; [reflexivity|apply Qle_antisym; assumption].
  - right. apply orb_true_iff. left. apply Z.ltb_lt. exact L.
Qed.
Lemma kind_close dn b : perm_eqv dn b -> ForallOrdPairs keys_differ b -> notes_close (fun _ => 0) (canon dn) (canon b) = true.
Proof.
  intros [a' [Hp Hf]] Hk.
  assert (Ka: ForallOrdPairs keys_differ a') by (apply (keys_differ_forall2 a' b Hf Hk)).
  assert (Kd: ForallOrdPairs keys_differ dn) by (apply (FOP_perm _ keys_differ_sym a' dn (Permutation_sym Hp) Ka)).
  rewrite (canon_perm_eq dn a' Hp).
  - apply notes_close_eqv. apply canon_eqv. exact Hf.
  - intros x y Hx Hy. destruct (FOP_in_or _ keys_differ_sym dn x y Kd Hx Hy) as [->|D]; [left; reflexivity|right; apply keys_differ_cmp; exact D].
Qed.
Lemma objs_match_exact dc c : (forall k, perm_eqv (dnotes_of k (d_notes dc)) (chart_list c k)) ->
  (forall k, ForallOrdPairs keys_differ (chart_list c k)) -> objs_match (fun _ => 0) dc c = true.
Proof.
  intros Hp Hk. unfold objs_match, chart_objs. cbn [forallb fst snd].
  pose proof (kind_close _ _ (Hp KHit) (Hk KHit)) as E1. pose proof (kind_close _ _ (Hp KHold) (Hk KHold)) as E2.
  pose proof (kind_close _ _ (Hp KRoll) (Hk KRoll)) as E3. pose proof (kind_close _ _ (Hp KMine) (Hk KMine)) as E4.
  pose proof (kind_close _ _ (Hp KLift) (Hk KLift)) as E5. pose proof (kind_close _ _ (Hp KFake) (Hk KFake)) as E6.
  pose proof (kind_close _ _ (Hp KKey) (Hk KKey)) as E7. cbn [chart_list] in E1, E2, E3, E4, E5, E6, E7.
  rewrite E1, E2, E3, E4, E5, E6, E7. reflexivity.
Qed.
Lemma forallb2_of_forall2 {A B} (f : A -> B -> bool) a b : Forall2 (fun x y => f x y = true) a b -> forallb2 f a b = true.
Proof. induction 1 as [|x y a b H _ IH]; [reflexivity|]. cbn [forallb2]. rewrite H, IH. reflexivity. Qed.

(* ================================================================ the two regimes *)
Section Regimes.
  Variable cf : smconf.
  Hypothesis Hcf : cf = ref_conf (k_tbl cf) (k_chart_keys cf).
  Hypothesis Hok : table_ok (1 # 96) (k_tbl cf) = true.

  Lemma chart_domb_parts c0 c init l : chart_domb cf c0 c init l = true ->
    chart_common_domb cf c0 c init l = true
    /\ distinct_bc (map (fun e : Q * Z * Z => (spec_beat init l (fst (fst e)), snd (fst e))) (chart_events cf c)) = true
    /\ exact_measures cf (spec_placed cf init l c) = true.
  Proof. unfold chart_domb. intro H. apply andb_true_iff in H. destruct H as [H H2]. apply andb_true_iff in H. destruct H as [H0 H1]. auto. Qed.
  Lemma chart_cap_domb_parts c0 c init l : chart_cap_domb cf c0 c init l = true ->
    chart_common_domb cf c0 c init l = true
    /\ distinct_cells (map (cell_of_placed cf (spec_placed cf init l c)) (spec_placed cf init l c)) = true.
  Proof. unfold chart_cap_domb. intro H. apply andb_true_iff in H. exact H. Qed.

  (* exact regime *)
  Definition exactP (c : smchart) (notes : list dnote) : Prop :=
    (forall k, perm_eqv (dnotes_of k notes) (chart_list c k)) /\ (forall k, ForallOrdPairs keys_differ (chart_list c k)).
  Lemma sm_write_exact_strong s : c03_domb_gen cf s = true ->
    exists toks, sm_write cf current s = Some toks /\
      forall txt, match_toks 0 toks txt = true ->
        exists d, sm_denote txt = Some d /\ header_roundtrip 0 s d = true
          /\ Forall2 (fun dc c => header_match 0 dc c = true /\ exactP c (d_notes dc)) (d_charts d) (s_maps s).
  Proof.
    intro Hdom.
    destruct (sm_write_denotes_with cf Hok (chart_domb cf) (fun _ _ c notes => exactP c notes)
                (fun c0 c init l H => proj1 (chart_domb_parts c0 c init l H))) with (s := s) as [toks [W H]]; [|exact Hdom|].
    - intros rows init l Hs Ht script beat0 Hsc Hb0 c0 c keys Hr Hcd Hk.
      destruct (chart_domb_parts c0 c init l Hcd) as [Hcom [Hdist Hex]].
      destruct (chart_dom_parts cf c0 c init l Hcom) as [keys' [K1 [K2 [_ [_ [_ [_ [Eb [P1 [P2 [P3 P4]]]]]]]]]]].
      assert (keys' = keys) by congruence. subst keys'.
      destruct (chart_thm cf Hcf Hok rows init l Hs Ht script beat0 Hsc Hb0 c keys (eq_trans Eb Hr) K1 K2 P1 P2 P3 P4 Hdist Hex)
        as [body [B1 [B2 [B3 [op [notes [ns [D [Ho Hp]]]]]]]]].
      exists body. split; [exact B1|]. split; [exact B2|]. split; [exact B3|]. exists op, notes, ns. split; [exact D|]. split; [exact Ho|].
      split; [exact Hp|]. intro k.
      apply (chart_keys_distinct cf Hcf init l c Hdist).
    - exists toks. split; [exact W|]. intros txt Hm. destruct (H txt Hm) as [_ [d [D1 [D2 [init [l [_ [D3 _]]]]]]]].
      exists d. split; [exact D1|]. split; [exact D2|exact D3].
  Qed.
  Theorem sm_write_denotes_gen s : c03_domb_gen cf s = true ->
    exists toks, sm_write cf current s = Some toks /\
      forall txt, match_toks 0 toks txt = true ->
        exists d, sm_denote txt = Some d /\ header_roundtrip 0 s d = true /\ Forall2 chart_denotes (d_charts d) (s_maps s).
  Proof.
    intro Hdom. destruct (sm_write_exact_strong s Hdom) as [toks [W H]]. exists toks. split; [exact W|]. intros txt Hm.
    destruct (H txt Hm) as [d [D1 [D2 D3]]]. exists d. split; [exact D1|]. split; [exact D2|].
    apply (forall2_impl _ _ _ _ (fun dc c G => conj (proj1 G) (proj1 (proj2 G))) D3).
  Qed.
  (* ... and in the form of the runner's oracle: write_spec with tolerance 0 in the exact regime *)
  Theorem sm_write_spec_gen s : c03_domb_gen cf s = true ->
    exists toks, sm_write cf current s = Some toks /\
      forall txt, match_toks 0 toks txt = true -> exists d, sm_denote txt = Some d /\ write_spec 0 true s d = true.
  Proof.
    intro Hdom. destruct (sm_write_exact_strong s Hdom) as [toks [W H]]. exists toks. split; [exact W|]. intros txt Hm.
    destruct (H txt Hm) as [d [D1 [D2 D3]]]. exists d. split; [exact D1|]. unfold write_spec. rewrite D2. cbn [andb].
    apply forallb2_of_forall2. refine (forall2_impl _ _ _ _ _ D3). intros dc c [G1 [G2 G3]].
    rewrite G1, (objs_match_exact dc c G2 G3). reflexivity.
  Qed.

  (* the facts the READER's domain needs about every exact rendering (exact regime) *)
  Theorem sm_write_reader_facts_gen s : c03_domb_gen cf s = true ->
    exists toks, sm_write cf current s = Some toks /\ forall txt, match_toks 0 toks txt = true -> reader_facts cf s txt.
  Proof.
    intro Hdom.
    apply (sm_write_reader_facts cf Hok (chart_domb cf) (fun _ _ c notes => exactP c notes)
             (fun c0 c init l H => proj1 (chart_domb_parts c0 c init l H))); [| |exact Hdom].
    - intros rows init l Hs Ht script beat0 Hsc Hb0 c0 c keys Hr Hcd Hk.
      destruct (chart_domb_parts c0 c init l Hcd) as [Hcom [Hdist Hex]].
      destruct (chart_dom_parts cf c0 c init l Hcom) as [keys' [K1 [K2 [_ [_ [_ [_ [Eb [P1 [P2 [P3 P4]]]]]]]]]]].
      assert (keys' = keys) by congruence. subst keys'.
      destruct (chart_thm cf Hcf Hok rows init l Hs Ht script beat0 Hsc Hb0 c keys (eq_trans Eb Hr) K1 K2 P1 P2 P3 P4 Hdist Hex)
        as [body [B1 [B2 [B3 [op [notes [ns [D [Ho Hp]]]]]]]]].
      exists body. split; [exact B1|]. split; [exact B2|]. split; [exact B3|]. exists op, notes, ns. split; [exact D|]. split; [exact Ho|].
      split; [exact Hp|]. intro k. apply (chart_keys_distinct cf Hcf init l c Hdist).
    - intros c0 c init l body Hcd Hs Ht Hb.
      destruct (chart_domb_parts c0 c init l Hcd) as [Hcom [Hdist Hex]].
      destruct (chart_dom_parts cf c0 c init l Hcom) as [keys [K1 [K2 [_ [_ [_ [_ [Eb [P1 [P2 [P3 P4]]]]]]]]]]].
      exact (chart_rows4 cf Hcf Hok (c_bpms c0) init l Hs Ht l init c keys Eb K1 K2 P1 P4 Hdist Hex body Hb).
  Qed.

  (* the concrete shape of the written text (for compositions with the reader) *)
  Theorem sm_write_shape_gen s : c03_domb_gen cf s = true ->
    exists toks, sm_write cf current s = Some toks /\ forall txt, match_toks 0 toks txt = true -> text_shape cf s txt.
  Proof.
    intro Hdom.
    destruct (sm_write_denotes_with cf Hok (chart_domb cf) (fun _ _ c notes => exactP c notes)
                (fun c0 c init l H => proj1 (chart_domb_parts c0 c init l H))) with (s := s) as [toks [W H]]; [|exact Hdom|].
    - intros rows init l Hs Ht script beat0 Hsc Hb0 c0 c keys Hr Hcd Hk.
      destruct (chart_domb_parts c0 c init l Hcd) as [Hcom [Hdist Hex]].
      destruct (chart_dom_parts cf c0 c init l Hcom) as [keys' [K1 [K2 [_ [_ [_ [_ [Eb [P1 [P2 [P3 P4]]]]]]]]]]].
      assert (keys' = keys) by congruence. subst keys'.
      destruct (chart_thm cf Hcf Hok rows init l Hs Ht script beat0 Hsc Hb0 c keys (eq_trans Eb Hr) K1 K2 P1 P2 P3 P4 Hdist Hex)
        as [body [B1 [B2 [B3 [op [notes [ns [D [Ho Hp]]]]]]]]].
      exists body. split; [exact B1|]. split; [exact B2|]. split; [exact B3|]. exists op, notes, ns. split; [exact D|]. split; [exact Ho|].
      split; [exact Hp|]. intro k. apply (chart_keys_distinct cf Hcf init l c Hdist).
    - exists toks. split; [exact W|]. intros txt Hm. apply (H txt Hm).
  Qed.

  (* cap regime: every object is read at the time of the row it was written in, less than a 384th of a measure early *)
  Theorem sm_write_cap_gen s : c03_cap_domb_gen cf s = true ->
    exists toks, sm_write cf current s = Some toks /\
      forall txt, match_toks 0 toks txt = true ->
        exists d, sm_denote txt = Some d /\ header_roundtrip 0 s d = true
          /\ exists init l, match s_maps s with c0 :: _ => tempo_script_of cf (c_bpms c0) = Some (init, l) | [] => False end
              /\ Forall2 (chart_cap_denotes init l) (d_charts d) (s_maps s).
  Proof.
    intro Hdom.
    destruct (sm_write_denotes_with cf Hok (chart_cap_domb cf)
                (fun init l c notes => forall k, exists a', Permutation (dnotes_of k notes) a' /\ Forall2 (cap_note_rel init l) a' (chart_list c k))
                (fun c0 c init l H => proj1 (chart_cap_domb_parts c0 c init l H))) with (s := s) as [toks [W H]]; [|exact Hdom|].
    - intros rows init l Hs Ht script beat0 Hsc Hb0 c0 c keys Hr Hcd Hk.
      destruct (chart_cap_domb_parts c0 c init l Hcd) as [Hcom Hcells].
      destruct (chart_dom_parts cf c0 c init l Hcom) as [keys' [K1 [K2 [_ [_ [_ [_ [Eb [P1 [P2 [P3 P4]]]]]]]]]]].
      assert (keys' = keys) by congruence. subst keys'.
      exact (chart_thm_cap cf Hcf Hok rows init l Hs Ht script beat0 Hsc Hb0 c keys (eq_trans Eb Hr) K1 K2 P1 P2 P3 P4 Hcells).
    - exists toks. split; [exact W|]. intros txt Hm. destruct (H txt Hm) as [_ [d [D1 [D2 [init [l [D3 [D4 _]]]]]]]].
      exists d. split; [exact D1|]. split; [exact D2|]. exists init, l. split; [exact D3|exact D4].
  Qed.

  (* tempo, exact domain *)
  Theorem sm_write_tempo_exact_gen s : c03_domb_gen cf s = true ->
    exists toks, sm_write cf current s = Some toks /\
      forall txt, match_toks 0 toks txt = true ->
        exists d, sm_denote txt = Some d
          /\ exists init l, match s_maps s with c0 :: _ => tempo_script_of cf (c_bpms c0) = Some (init, l) /\ tempo_denotes d (c_bpms c0) init l
                                               | [] => False end.
  Proof.
    intro Hdom.
    destruct (sm_write_denotes_with cf Hok (chart_domb cf) (fun _ _ c notes => exactP c notes)
                (fun c0 c init l H => proj1 (chart_domb_parts c0 c init l H))) with (s := s) as [toks [W H]]; [|exact Hdom|].
    - intros rows init l Hs Ht script beat0 Hsc Hb0 c0 c keys Hr Hcd Hk.
      destruct (chart_domb_parts c0 c init l Hcd) as [Hcom [Hdist Hex]].
      destruct (chart_dom_parts cf c0 c init l Hcom) as [keys' [K1 [K2 [_ [_ [_ [_ [Eb [P1 [P2 [P3 P4]]]]]]]]]]].
      assert (keys' = keys) by congruence. subst keys'.
      destruct (chart_thm cf Hcf Hok rows init l Hs Ht script beat0 Hsc Hb0 c keys (eq_trans Eb Hr) K1 K2 P1 P2 P3 P4 Hdist Hex)
        as [body [B1 [B2 [B3 [op [notes [ns [D [Ho Hp]]]]]]]]].
      exists body. split; [exact B1|]. split; [exact B2|]. split; [exact B3|]. exists op, notes, ns. split; [exact D|]. split; [exact Ho|].
      split; [exact Hp|]. intro k. apply (chart_keys_distinct cf Hcf init l c Hdist).
    - exists toks. split; [exact W|]. intros txt Hm. destruct (H txt Hm) as [_ [d [D1 [_ [init [l [D3 [_ D5]]]]]]]].
      exists d. split; [exact D1|]. exists init, l. destruct (s_maps s); [exact D3|split; assumption].
  Qed.

  (* tempo: the tempo list the text denotes is the mapset's (exact and cap regime alike) *)
  Theorem sm_write_tempo_gen s : c03_cap_domb_gen cf s = true ->
    exists toks, sm_write cf current s = Some toks /\
      forall txt, match_toks 0 toks txt = true ->
        exists d, sm_denote txt = Some d
          /\ exists init l, match s_maps s with c0 :: _ => tempo_script_of cf (c_bpms c0) = Some (init, l) /\ tempo_denotes d (c_bpms c0) init l
                                               | [] => False end.
  Proof.
    intro Hdom.
    destruct (sm_write_denotes_with cf Hok (chart_cap_domb cf)
                (fun init l c notes => forall k, exists a', Permutation (dnotes_of k notes) a' /\ Forall2 (cap_note_rel init l) a' (chart_list c k))
                (fun c0 c init l H => proj1 (chart_cap_domb_parts c0 c init l H))) with (s := s) as [toks [W H]]; [|exact Hdom|].
    - intros rows init l Hs Ht script beat0 Hsc Hb0 c0 c keys Hr Hcd Hk.
      destruct (chart_cap_domb_parts c0 c init l Hcd) as [Hcom Hcells].
      destruct (chart_dom_parts cf c0 c init l Hcom) as [keys' [K1 [K2 [_ [_ [_ [_ [Eb [P1 [P2 [P3 P4]]]]]]]]]]].
      assert (keys' = keys) by congruence. subst keys'.
      exact (chart_thm_cap cf Hcf Hok rows init l Hs Ht script beat0 Hsc Hb0 c keys (eq_trans Eb Hr) K1 K2 P1 P2 P3 P4 Hcells).
    - exists toks. split; [exact W|]. intros txt Hm. destruct (H txt Hm) as [_ [d [D1 [_ [init [l [D3 [_ D5]]]]]]]].
      exists d. split; [exact D1|]. exists init, l. destruct (s_maps s); [exact D3|split; assumption].
  Qed.
End Regimes.

(* ================================================================ the live configuration *)
(* the exact and the cap domain of C03, on the constants and the snapper table regenerated from the live classes *)
Definition c03_domb (s : smset) : bool := c03_domb_gen live_conf s.
Definition c03_cap_domb (s : smset) : bool := c03_cap_domb_gen live_conf s.
Lemma live_conf_ref : live_conf = ref_conf (k_tbl live_conf) (k_chart_keys live_conf).
Proof. vm_compute. reflexivity. Qed.
Lemma live_table_ok : table_ok (1 # 96) (k_tbl live_conf) = true.
Proof. vm_compute. reflexivity. Qed.

(* Every mapset in the exact domain is written, and every exact rendering of the written tokens is a well-formed .sm
   text that denotes the mapset: header fields read back, the same charts in the same order, each with its header and,
   per kind, exactly its objects (a permutation; column equal, time and length equal as numbers). *)
Theorem sm_write_denotes (s : smset) : c03_domb s = true ->
  exists toks, sm_write live_conf current s = Some toks /\
    forall txt, match_toks 0 toks txt = true ->
      exists d, sm_denote txt = Some d /\ header_roundtrip 0 s d = true /\ Forall2 chart_denotes (d_charts d) (s_maps s).
Proof. exact (sm_write_denotes_gen live_conf live_conf_ref live_table_ok s). Qed.

(* The same for mapsets in which some measure needs more than 384 rows (no two objects in one written cell):
   nothing invented, nothing dropped, columns kept, and each object is read at the time of the row
   floor(position * rows) of its measure, whose beat wb satisfies  wb <= beat < wb + 4/384. *)
Theorem sm_write_cap_bound (s : smset) : c03_cap_domb s = true ->
  exists toks, sm_write live_conf current s = Some toks /\
    forall txt, match_toks 0 toks txt = true ->
      exists d, sm_denote txt = Some d /\ header_roundtrip 0 s d = true
        /\ exists init l, match s_maps s with c0 :: _ => tempo_script_of live_conf (c_bpms c0) = Some (init, l) | [] => False end
            /\ Forall2 (chart_cap_denotes init l) (d_charts d) (s_maps s).
Proof. exact (sm_write_cap_gen live_conf live_conf_ref live_table_ok s). Qed.

(* ... in the form of the runner's oracle (Corr/RunC03.v evaluates exactly this on the implementation's text) *)
Theorem sm_write_spec (s : smset) : c03_domb s = true ->
  exists toks, sm_write live_conf current s = Some toks /\
    forall txt, match_toks 0 toks txt = true -> exists d, sm_denote txt = Some d /\ write_spec 0 true s d = true.
Proof. exact (sm_write_spec_gen live_conf live_conf_ref live_table_ok s). Qed.

(* the shape of every exact rendering of the written tokens (22 header lines, 9 lines per chart; numerals free) *)
Theorem sm_write_text_shape (s : smset) : c03_domb s = true ->
  exists toks, sm_write live_conf current s = Some toks /\ forall txt, match_toks 0 toks txt = true -> text_shape live_conf s txt.
Proof. exact (sm_write_shape_gen live_conf live_conf_ref live_table_ok s). Qed.

(* the tempo list of the written text is the mapset's tempo list (both domains) *)
Theorem sm_write_tempo (s : smset) : c03_domb s = true ->
  exists toks, sm_write live_conf current s = Some toks /\
    forall txt, match_toks 0 toks txt = true ->
      exists d, sm_denote txt = Some d
        /\ exists init l, match s_maps s with c0 :: _ => tempo_script_of live_conf (c_bpms c0) = Some (init, l) /\ tempo_denotes d (c_bpms c0) init l
                                             | [] => False end.
Proof. exact (sm_write_tempo_exact_gen live_conf live_conf_ref live_table_ok s). Qed.
Theorem sm_write_tempo_cap (s : smset) : c03_cap_domb s = true ->
  exists toks, sm_write live_conf current s = Some toks /\
    forall txt, match_toks 0 toks txt = true ->
      exists d, sm_denote txt = Some d
        /\ exists init l, match s_maps s with c0 :: _ => tempo_script_of live_conf (c_bpms c0) = Some (init, l) /\ tempo_denotes d (c_bpms c0) init l
                                             | [] => False end.
Proof. exact (sm_write_tempo_gen live_conf live_conf_ref live_table_ok s). Qed.

Theorem sm_write_reader_facts_live (s : smset) : c03_domb s = true ->
  exists toks, sm_write live_conf current s = Some toks /\ forall txt, match_toks 0 toks txt = true -> reader_facts live_conf s txt.
Proof. exact (sm_write_reader_facts_gen live_conf live_conf_ref live_table_ok s). Qed.
