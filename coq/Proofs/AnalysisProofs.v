(* Proofs for C19: soundness of the boolean oracles, sv_normalize, dominant_bpm, the refutations for the OLD
   dominant_bpm model, scroll_speed for games without SVs (section E).  scroll_speed for charts WITH an SV list:
   Proofs/ScrollSvProofs.v. *)
From Coq Require Import ZArith QArith Qabs List Bool Lia Lqa Permutation.
From RV Require Import Base.PyNum Algo.DominantBpm Algo.ScrollSpeed Algo.AnalysisSpec.
Import ListNotations.
Open Scope Q_scope.

(* ------------------------------------------------------------------ small facts *)
Lemma Qeq_bool_true a b : Qeq_bool a b = true <-> a == b.
Proof. split; [apply Qeq_bool_eq | apply Qeq_eq_bool]. Qed.

Lemma q_close_sound tol a b : q_close tol a b = true -> Q_close tol a b.
Proof. unfold q_close, Q_close. apply Qle_bool_iff. Qed.

Lemma Q_close_0 a b : a == b -> Q_close 0 a b.
Proof.
  intro H. unfold Q_close. assert (E: a - b == 0) by lra. rewrite E. rewrite Qabs_pos by lra. lra.
Qed.

(* ------------------------------------------------------------------ A. the boolean oracles are sound *)
Lemma dominantb_sound tol c b : dominantb tol c b = true -> is_dominant tol c b.
Proof.
  unfold dominantb, is_dominant. intro H. apply andb_true_iff in H. destruct H as [H1 H2]. split.
  - apply existsb_exists in H1. destruct H1 as [[o b'] [Hin Hb]]. exists o, b'. split; [exact Hin|].
    apply Qeq_bool_true. exact Hb.
  - intros o b' Hin. rewrite forallb_forall in H2. specialize (H2 (o, b') Hin). apply Qle_bool_iff in H2. exact H2.
Qed.

Lemma references_sound tol c ov ref : In ref (references tol c ov) -> is_reference tol c ov ref.
Proof.
  unfold references, is_reference. destruct ov as [o|].
  - intros [H|[]]. symmetry. exact H.
  - intro H. apply filter_In in H. apply dominantb_sound. apply H.
Qed.

Theorem dominant_specb_sound tol c out : dominant_specb tol c out = true -> dominant_spec tol c out.
Proof.
  unfold dominant_specb, dominant_spec. destruct out as [b|]; [|discriminate].
  intro H. exists b. split; [reflexivity|]. apply dominantb_sound. exact H.
Qed.

Lemma speed_okb_sound tol c ref t s : speed_okb tol c ref t s = true -> speed_ok tol c ref t s.
Proof.
  unfold speed_okb, speed_ok. destruct (bpm_at c t) as [b|]; [|discriminate]. destruct s as [v|]; [|discriminate].
  intro H. exists b, v. repeat split. apply q_close_sound. exact H.
Qed.

Lemma has_breakpointb_sound out t : has_breakpointb out t = true -> has_breakpoint out t.
Proof.
  unfold has_breakpointb, has_breakpoint. intro H. apply existsb_exists in H. destruct H as [r [Hin Hr]].
  exists r. split; [exact Hin|]. apply Qeq_bool_true. exact Hr.
Qed.

Lemma scroll_okb_sound tol c ref out : scroll_okb tol c ref out = true -> scroll_ok tol c ref out.
Proof.
  unfold scroll_okb, scroll_ok. intro H. apply andb_true_iff in H. destruct H as [H H3].
  apply andb_true_iff in H. destruct H as [H1 H2]. rewrite forallb_forall in H1, H2, H3. repeat split.
  - intros t s Hin. apply speed_okb_sound. exact (H1 (t, s) Hin).
  - intros r Hin. apply has_breakpointb_sound. exact (H2 r Hin).
  - intros r Hin. apply has_breakpointb_sound. exact (H3 r Hin).
Qed.

Theorem scroll_specb_sound tol c ov out : scroll_specb tol c ov out = true -> scroll_spec tol c ov out.
Proof.
  unfold scroll_specb, scroll_spec. destruct out as [o|]; [|discriminate]. intro H.
  apply existsb_exists in H. destruct H as [ref [Hin Hok]]. exists ref, o. split; [reflexivity|]. split.
  - apply references_sound. exact Hin.
  - apply scroll_okb_sound. exact Hok.
Qed.

Lemma extract_perm {A} (p : A -> bool) l x r : extract p l = Some (x, r) -> Permutation l (x :: r) /\ p x = true.
Proof.
  revert x r. induction l as [|y l IH]; intros x r H; simpl in H; [discriminate|].
  destruct (p y) eqn:E.
  - inversion H; subst. split; [apply Permutation_refl|exact E].
  - destruct (extract p l) as [[z r']|] eqn:E2; [|discriminate]. inversion H; subst.
    destruct (IH x r' eq_refl) as [P Q]. split; [|exact Q].
    apply perm_trans with (y :: x :: r'); [apply perm_skip; exact P|apply perm_swap].
Qed.

Lemma match_up_sound {A B} (p : A -> B -> bool) rows out :
  match_up p rows out = true -> exists out', Permutation out out' /\ Forall2 (fun a b => p a b = true) rows out'.
Proof.
  revert out. induction rows as [|r rows IH]; intros out H; simpl in H.
  - destruct out; [|discriminate]. exists []. split; [apply Permutation_refl|constructor].
  - destruct (extract (p r) out) as [[x out1]|] eqn:E; [|discriminate].
    destruct (extract_perm _ _ _ _ E) as [P Q]. destruct (IH out1 H) as [out' [P' F]].
    exists (x :: out'). split.
    + apply perm_trans with (x :: out1); [exact P|apply perm_skip; exact P'].
    + constructor; assumption.
Qed.

Lemma norm_okb_sound tol c ref out : norm_okb tol c ref out = true -> norm_ok tol c ref out.
Proof.
  unfold norm_okb, norm_ok. intro H. destruct (match_up_sound _ _ _ H) as [out' [P F]].
  exists out'. split; [exact P|]. clear P H. induction F as [|row sv rows svs Hp F IH]; constructor; [|exact IH].
  unfold norm_row_okb in Hp. apply andb_true_iff in Hp. destruct Hp as [H1 H2]. split.
  - apply Qeq_bool_true. exact H1.
  - apply q_close_sound. exact H2.
Qed.

Theorem norm_specb_sound tol c ov out : norm_specb tol c ov out = true -> norm_spec tol c ov out.
Proof.
  unfold norm_specb, norm_spec. destruct out as [o|]; [|discriminate]. intro H.
  apply existsb_exists in H. destruct H as [ref [Hin Hok]]. exists ref, o. split; [reflexivity|]. split.
  - apply references_sound. exact Hin.
  - apply norm_okb_sound. exact Hok.
Qed.

(* ------------------------------------------------------------------ B. sv_normalize *)
Theorem sv_normalize_with_spec c ref :
  (forall r, In r (c_bpms c) -> 0 < snd r) -> norm_ok 0 c ref (sv_normalize_with c ref).
Proof.
  intro Hpos. unfold norm_ok, sv_normalize_with. exists (map (fun r => (fst r, Qred (ref / snd r))) (c_bpms c)).
  split; [apply Permutation_refl|]. induction (c_bpms c) as [|r rows IH]; simpl; constructor.
  - unfold norm_row_ok. simpl. split; [reflexivity|]. apply Q_close_0. rewrite (Qred_correct (ref / snd r)).
    assert (P: 0 < snd r) by (apply Hpos; left; reflexivity). field. lra.
  - apply IH. intros x Hx. apply Hpos. right. exact Hx.
Qed.

(* ------------------------------------------------------------------ C. dominant_bpm *)
Ltac unred := repeat match goal with |- context [Qred ?x] => rewrite (Qred_correct x) end.

(* strictly increasing times (every element below all later ones) *)
Fixpoint ssorted (l : list Q) : Prop :=
  match l with [] => True | a :: t => (forall x, In x t -> a < x) /\ ssorted t end.
Fixpoint ssortedb (l : list Q) : bool :=
  match l with [] => true | a :: t => forallb (Qlt_bool a) t && ssortedb t end.
Lemma ssortedb_sound l : ssortedb l = true -> ssorted l.
Proof.
  induction l as [|a t IH]; simpl; [tauto|]. intro H. apply andb_true_iff in H. destruct H as [H1 H2]. split; [|auto].
  intros x Hx. rewrite forallb_forall in H1. apply Qlt_bool_iff. auto.
Qed.

Lemma ssorted_app_inv pre l : ssorted (pre ++ l) -> ssorted l /\ forall x y, In x pre -> In y l -> x < y.
Proof.
  induction pre as [|a pre IH]; simpl; intro H.
  - split; [exact H|]. intros x y [].
  - destruct H as [H1 H2]. destruct (IH H2) as [S R]. split; [exact S|].
    intros x y [Hx|Hx] Hy; [subst x; apply H1; apply in_or_app; right; exact Hy|eauto].
Qed.

Lemma qmax_list_spec l m : qmax_list l = Some m -> In m l /\ forall x, In x l -> x <= m.
Proof.
  revert m. induction l as [|a l IH]; intros m H; simpl in H; [discriminate|].
  destruct (qmax_list l) as [m'|] eqn:E.
  - destruct (IH m' eq_refl) as [I1 I2]. inversion H; subst m. unfold Qmax'.
    destruct (Qle_bool a m') eqn:E2.
    + apply Qle_bool_iff in E2. split; [right; exact I1|]. intros x [Hx|Hx]; [subst; exact E2|auto].
    + apply Qle_bool_false in E2. split; [left; reflexivity|]. intros x [Hx|Hx]; [subst; lra|]. specialize (I2 x Hx). lra.
  - inversion H; subst. destruct l; [|simpl in E; destruct (qmax_list l); discriminate].
    split; [left; reflexivity|]. intros x [Hx|[]]. subst. lra.
Qed.
Lemma qmax_list_some l : l <> [] -> exists m, qmax_list l = Some m.
Proof. destruct l as [|a l]; [congruence|]. intros _. simpl. destruct (qmax_list l); eauto. Qed.

Lemma list_max_spec l m : list_max l = Some m -> In m l /\ forall x, In x l -> x <= m.
Proof.
  revert m. induction l as [|a l IH]; intros m H; simpl in H; [discriminate|].
  destruct (list_max l) as [m'|] eqn:E.
  - destruct (IH m' eq_refl) as [I1 I2]. inversion H; subst m.
    destruct (Qle_bool m' a) eqn:E2.
    + apply Qle_bool_iff in E2. split; [left; reflexivity|]. intros x [Hx|Hx]; [subst; lra|]. specialize (I2 x Hx). lra.
    + apply Qle_bool_false in E2. split; [right; exact I1|]. intros x [Hx|Hx]; [subst; lra|auto].
  - inversion H; subst. destruct l; [|simpl in E; destruct (list_max l); discriminate].
    split; [left; reflexivity|]. intros x [Hx|[]]. subst. lra.
Qed.
Lemma list_min_spec l m : list_min l = Some m -> In m l /\ forall x, In x l -> m <= x.
Proof.
  revert m. induction l as [|a l IH]; intros m H; simpl in H; [discriminate|].
  destruct (list_min l) as [m'|] eqn:E.
  - destruct (IH m' eq_refl) as [I1 I2]. inversion H; subst m.
    destruct (Qle_bool a m') eqn:E2.
    + apply Qle_bool_iff in E2. split; [left; reflexivity|]. intros x [Hx|Hx]; [subst; lra|]. specialize (I2 x Hx). lra.
    + apply Qle_bool_false in E2. split; [right; exact I1|]. intros x [Hx|Hx]; [subst; lra|auto].
  - inversion H; subst. destruct l; [|simpl in E; destruct (list_min l); discriminate].
    split; [left; reflexivity|]. intros x [Hx|[]]. subst. lra.
Qed.
Lemma list_max_some l : l <> [] -> exists m, list_max l = Some m.
Proof. destruct l as [|a l]; [congruence|]. intros _. simpl. destruct (list_max l); eauto. Qed.

Lemma diffs_length l x : length (diffs (l ++ [x])) = length l.
Proof.
  induction l as [|a l IH]; [reflexivity|]. destruct l as [|b t]; [reflexivity|].
  change (S (length (diffs ((b :: t) ++ [x]))) = S (length (b :: t))). rewrite IH. reflexivity.
Qed.

Lemma map_fst_combine {A B} (a : list A) (b : list B) : length a = length b -> map fst (combine a b) = a.
Proof.
  revert b. induction a as [|x a IH]; intros [|y b] H; simpl in *; try reflexivity; try discriminate.
  rewrite IH; [reflexivity|lia].
Qed.

Lemma filter_none {A} (f : A -> bool) l : (forall x, In x l -> f x = false) -> filter f l = [].
Proof. induction l as [|a l IH]; simpl; intro H; [reflexivity|]. rewrite (H a) by (left; reflexivity). apply IH. intros; apply H; right; assumption. Qed.
Lemma filter_all {A} (f : A -> bool) l : (forall x, In x l -> f x = true) -> filter f l = l.
Proof. induction l as [|a l IH]; simpl; intro H; [reflexivity|]. rewrite (H a) by (left; reflexivity). rewrite IH; [reflexivity|]. intros; apply H; right; assumption. Qed.

Lemma list_min_ssorted a l : ssorted (a :: l) -> list_min (a :: l) = Some a.
Proof.
  intros [H _]. simpl. destruct (list_min l) as [m|] eqn:E; [|reflexivity].
  destruct (list_min_spec _ _ E) as [I _]. specialize (H m I).
  assert (L: Qle_bool a m = true) by (apply Qle_bool_iff; lra). rewrite L. reflexivity.
Qed.

Lemma next_tempo_sorted c pre o b rows :
  c_bpms c = pre ++ (o, b) :: rows -> ssorted (tempo_times c) ->
  next_tempo c o = match rows with [] => None | r :: _ => Some (fst r) end.
Proof.
  intros E S. unfold next_tempo, tempo_times in *. rewrite E in *. rewrite map_app in *. simpl map in *.
  destruct (ssorted_app_inv _ _ S) as [S2 R]. rewrite filter_app.
  rewrite filter_none.
  2:{ intros x Hx. apply Qlt_bool_false. apply Qlt_le_weak. apply R; [exact Hx|left; reflexivity]. }
  simpl. assert (F: Qlt_bool o o = false) by (apply Qlt_bool_false; lra). rewrite F.
  destruct S2 as [S3 S4]. rewrite filter_all.
  2:{ intros x Hx. apply Qlt_bool_iff. apply S3. exact Hx. }
  destruct rows as [|r rows']; [reflexivity|]. simpl map. apply list_min_ssorted. exact S4.
Qed.

Lemma Qeq_bool_congr b k k' : k == k' -> Qeq_bool b k = Qeq_bool b k'.
Proof.
  intro H. destruct (Qeq_bool b k) eqn:E1, (Qeq_bool b k') eqn:E2; try reflexivity.
  - apply Qeq_bool_true in E1. assert (X: b == k') by lra. apply Qeq_bool_true in X. congruence.
  - apply Qeq_bool_true in E2. assert (X: b == k) by lra. apply Qeq_bool_true in X. congruence.
Qed.
Lemma group_sum_congr k k' rows : k == k' -> group_sum k rows = group_sum k' rows.
Proof.
  intro H. induction rows as [|[b d] rows IH]; simpl; [reflexivity|].
  rewrite (Qeq_bool_congr b k k' H), IH. reflexivity.
Qed.
Lemma sum_where_congr k k' f rows : k == k' -> sum_where k f rows = sum_where k' f rows.
Proof.
  intro H. induction rows as [|[o b] rows IH]; simpl; [reflexivity|].
  rewrite (Qeq_bool_congr b k k' H), IH. reflexivity.
Qed.

Lemma sum_where_cons k f o b R :
  sum_where k f ((o, b) :: R) = if Qeq_bool b k then Qred (f o + sum_where k f R) else sum_where k f R.
Proof. reflexivity. Qed.
Lemma group_sum_cons k b d R :
  group_sum k ((b, d) :: R) = if Qeq_bool b k then Qred (d + group_sum k R) else group_sum k R.
Proof. reflexivity. Qed.

(* ---------- boolean comparisons to inequalities *)
Ltac qbool := repeat match goal with
  | H : Qle_bool _ _ = true |- _ => apply Qle_bool_iff in H
  | H : Qle_bool _ _ = false |- _ => apply Qle_bool_false in H
  | H : Qlt_bool _ _ = true |- _ => apply Qlt_bool_iff in H
  | H : Qlt_bool _ _ = false |- _ => apply Qlt_bool_false in H end.
Ltac qcases := repeat match goal with |- context [if ?b then _ else _] => destruct b eqn:? end; qbool; try lra.

Lemma Qmin'_compat o a b : a == b -> Qmin' o a == Qmin' o b.
Proof. intro H. unfold Qmin'. qcases. Qed.
Lemma Qmin'_self x : Qmin' x x == x.
Proof. unfold Qmin'. qcases. Qed.
Lemma Qmin'_compat_l a b hi : a == b -> Qmin' a hi == Qmin' b hi.
Proof. intro H. unfold Qmin'. qcases. Qed.
Lemma Qmax'_compat_l a b lo : a == b -> Qmax' a lo == Qmax' b lo.
Proof. intro H. unfold Qmax'. qcases. Qed.
Lemma Qmax'_ge lo x : lo <= x -> Qmax' x lo == x.
Proof. intro H. unfold Qmax'. qcases. Qed.
Lemma Qmin'_mono a b hi : a <= b -> Qmin' a hi <= Qmin' b hi.
Proof. intro H. unfold Qmin'. qcases. Qed.
Lemma Qmin'_le_r a hi : Qmin' a hi <= hi.
Proof. unfold Qmin'. qcases. Qed.
Lemma clip_compat lo hi a b : a == b -> clip lo hi a == clip lo hi b.
Proof. intro H. unfold clip. apply Qmin'_compat_l. apply Qmax'_compat_l. exact H. Qed.
Lemma clip_ge lo hi x : lo <= x -> clip lo hi x == Qmin' x hi.
Proof. intro H. unfold clip. apply Qmin'_compat_l. apply Qmax'_ge. exact H. Qed.

(* the specification's segment length, once the next tempo point is known (times at or after [lo]) *)
Lemma segment_val_some c lo hi o e :
  lo <= o -> o <= e -> next_tempo c o = Some e -> segment_time c lo hi o == Qmin' e hi - Qmin' o hi.
Proof.
  intros H1 H2 H. unfold segment_time. rewrite H.
  pose proof (clip_ge lo hi o H1) as Co. assert (H3: lo <= e) by lra. pose proof (clip_ge lo hi e H3) as Ce.
  pose proof (Qmin'_mono o e hi H2) as M.
  destruct (Qlt_bool (clip lo hi o) (clip lo hi e)) eqn:E; qbool; lra.
Qed.
Lemma segment_val_none c lo hi o :
  lo <= o -> lo <= hi -> next_tempo c o = None -> segment_time c lo hi o == hi - Qmin' o hi.
Proof.
  intros H1 H2 H. unfold segment_time. rewrite H.
  pose proof (clip_ge lo hi o H1) as Co. pose proof (Qmin'_le_r o hi) as M.
  destruct (Qlt_bool (clip lo hi o) hi) eqn:E; qbool; lra.
Qed.

Lemma diffs_cons2 a b t : diffs (a :: b :: t) = Qred (b - a) :: diffs (b :: t).
Proof. reflexivity. Qed.

Section Dominant.
  Variables (c : chart) (lo hi last k : Q).
  Hypothesis S : ssorted (tempo_times c).
  Hypothesis Blo : forall t, In t (tempo_times c) -> lo <= t.
  Hypothesis Hlohi : lo <= hi.
  Hypothesis Elast : last == hi.

  (* tempo rows in time order: the model's clipped, labelled intervals, summed per label, are the
     specification's active times *)
  Lemma group_sum_active rows : forall pre, c_bpms c = pre ++ rows ->
    group_sum k (combine (map snd rows) (diffs (map (fun o => Qmin' o last) (map fst rows ++ [last]))))
    == sum_where k (segment_time c lo hi) rows.
  Proof.
    induction rows as [|[o b] rows IH]; intros pre E; [simpl; lra|].
    assert (Ho: In o (tempo_times c)).
    { unfold tempo_times. rewrite E, map_app. apply in_or_app. right. left. reflexivity. }
    pose proof (next_tempo_sorted c pre o b rows E S) as N.
    pose proof (Qmin'_compat o last hi Elast) as Co.
    destruct rows as [|[o' b'] rows'].
    - cbn [map app diffs combine fst snd]. rewrite group_sum_cons, sum_where_cons.
      pose proof (segment_val_none c lo hi o (Blo o Ho) Hlohi N) as V.
      pose proof (Qmin'_self last) as Cl.
      destruct (Qeq_bool b k); cbn [group_sum sum_where]; [|lra]. unred. rewrite V. lra.
    - assert (Lt: o < o').
      { unfold tempo_times in S. rewrite E, map_app in S. destruct (ssorted_app_inv _ _ S) as [[S1 _] _].
        apply S1. left. reflexivity. }
      assert (V: segment_time c lo hi o == Qmin' o' hi - Qmin' o hi).
      { apply segment_val_some; [apply Blo; exact Ho|lra|exact N]. }
      pose proof (Qmin'_compat o' last hi Elast) as Co'.
      specialize (IH (pre ++ [(o, b)])). rewrite <- app_assoc in IH. specialize (IH E).
      cbn [map app fst snd] in IH. cbn [map app fst snd]. rewrite diffs_cons2. cbn [combine].
      rewrite group_sum_cons, (sum_where_cons k (segment_time c lo hi) o b ((o', b') :: rows')).
      destruct (Qeq_bool b k).
      + unred. rewrite IH, V. lra.
      + exact IH.
  Qed.
End Dominant.

(* ---------- m.bpms.sorted(): a permutation of the rows, in time order *)
Lemma binsert_perm x l : Permutation (binsert x l) (x :: l).
Proof.
  induction l as [|y l IH]; simpl; [apply Permutation_refl|]. destruct (Qle_bool (fst x) (fst y)); [apply Permutation_refl|].
  apply perm_trans with (y :: x :: l); [apply perm_skip; exact IH|apply perm_swap].
Qed.
Lemma bsort_perm l : Permutation (bsort l) l.
Proof.
  induction l as [|x l IH]; simpl; [constructor|].
  apply perm_trans with (x :: bsort l); [apply binsert_perm|apply perm_skip; exact IH].
Qed.
Fixpoint ksorted (l : list (Q * Q)) : Prop :=
  match l with [] => True | a :: t => (forall x, In x t -> fst a <= fst x) /\ ksorted t end.
Lemma binsert_ksorted x l : ksorted l -> ksorted (binsert x l).
Proof.
  induction l as [|y l IH]; simpl; intro H; [split; [intros ? []|exact I]|].
  destruct H as [H1 H2]. destruct (Qle_bool (fst x) (fst y)) eqn:E; qbool.
  - split; [|split; assumption]. intros z [Hz|Hz]; [subst; exact E|]. specialize (H1 z Hz). lra.
  - split; [|apply IH; exact H2]. intros z Hz.
    apply (Permutation_in _ (binsert_perm x l)) in Hz. destruct Hz as [Hz|Hz]; [subst; lra|auto].
Qed.
Lemma bsort_ksorted l : ksorted (bsort l).
Proof. induction l as [|x l IH]; simpl; [exact I|]. apply binsert_ksorted. exact IH. Qed.

Fixpoint qdistinct (l : list Q) : Prop :=
  match l with [] => True | a :: t => (forall x, In x t -> ~ a == x) /\ qdistinct t end.
Lemma distinct_times_sound l : distinct_times l = true -> qdistinct l.
Proof.
  induction l as [|a l IH]; simpl; [tauto|]. intro H. apply andb_true_iff in H. destruct H as [H1 H2].
  split; [|auto]. intros x Hx E. apply negb_true_iff in H1.
  assert (X: existsb (Qeq_bool a) l = true) by (apply existsb_exists; exists x; split; [exact Hx|apply Qeq_bool_true; exact E]).
  congruence.
Qed.
Lemma qdistinct_perm l l' : Permutation l l' -> qdistinct l -> qdistinct l'.
Proof.
  induction 1 as [|x l l' P IH|x y l|l l' l'' P1 IH1 P2 IH2]; simpl; auto.
  - intros [H1 H2]. split; [|auto]. intros z Hz. apply H1. apply (Permutation_in _ (Permutation_sym P)). exact Hz.
  - intros [H1 [H2 H3]]. split; [|split; [|exact H3]].
    + intros z [Hz|Hz]; [subst z; intro E; apply (H1 x); [left; reflexivity|lra]|apply H2; exact Hz].
    + intros z Hz. apply H1. right. exact Hz.
Qed.
Lemma ksorted_distinct_ssorted l : ksorted l -> qdistinct (map fst l) -> ssorted (map fst l).
Proof.
  induction l as [|a l IH]; simpl; [tauto|]. intros [K1 K2] [D1 D2]. split; [|auto].
  intros x Hx. apply in_map_iff in Hx. destruct Hx as [r [Er Hr]]. subst x.
  specialize (K1 r Hr). assert (N: ~ fst a == fst r) by (apply D1; apply in_map; exact Hr).
  destruct (Qlt_le_dec (fst a) (fst r)) as [Lt|Le]; [exact Lt|]. exfalso. apply N. lra.
Qed.

(* ---------- the specification does not depend on the order of the tempo rows *)
Lemma sum_where_perm k f l l' : Permutation l l' -> sum_where k f l == sum_where k f l'.
Proof.
  induction 1 as [|[o b] l l' P IH|[o b] [o' b'] l|l l' l'' P1 IH1 P2 IH2].
  - reflexivity.
  - rewrite !sum_where_cons. destruct (Qeq_bool b k); [unred; rewrite IH; reflexivity|exact IH].
  - rewrite !sum_where_cons. destruct (Qeq_bool b k), (Qeq_bool b' k); unred; lra.
  - rewrite IH1. exact IH2.
Qed.
Lemma sum_where_ext k f g l : (forall o, f o == g o) -> sum_where k f l == sum_where k g l.
Proof.
  intro H. induction l as [|[o b] l IH]; [reflexivity|]. rewrite !sum_where_cons.
  destruct (Qeq_bool b k); [unred; rewrite IH, (H o); reflexivity|exact IH].
Qed.
Lemma filter_perm {A} (f : A -> bool) l l' : Permutation l l' -> Permutation (filter f l) (filter f l').
Proof.
  induction 1 as [|x l l' P IH|x y l|l l' l'' P1 IH1 P2 IH2]; simpl.
  - constructor.
  - destruct (f x); [apply perm_skip|]; exact IH.
  - destruct (f x), (f y); try apply Permutation_refl. apply perm_swap.
  - eapply perm_trans; eassumption.
Qed.
Lemma list_min_none l : list_min l = None -> l = [].
Proof. destruct l as [|a l]; [reflexivity|]. simpl. destruct (list_min l); discriminate. Qed.
Definition oqeq (a b : option Q) : Prop :=
  match a, b with Some x, Some y => x == y | None, None => True | _, _ => False end.
Lemma list_min_perm l l' : Permutation l l' -> oqeq (list_min l) (list_min l').
Proof.
  intro P. destruct (list_min l) as [a|] eqn:E1, (list_min l') as [b|] eqn:E2; simpl; auto.
  - destruct (list_min_spec _ _ E1) as [I1 B1]. destruct (list_min_spec _ _ E2) as [I2 B2].
    pose proof (B2 a (Permutation_in _ P I1)). pose proof (B1 b (Permutation_in _ (Permutation_sym P) I2)). lra.
  - apply list_min_none in E2. subst l'. apply Permutation_sym, Permutation_nil in P. subst l. discriminate.
  - apply list_min_none in E1. subst l. apply Permutation_nil in P. subst l'. discriminate.
Qed.
Lemma segment_time_perm c c' lo hi o :
  Permutation (tempo_times c) (tempo_times c') -> segment_time c lo hi o == segment_time c' lo hi o.
Proof.
  intro P. unfold segment_time.
  pose proof (list_min_perm _ _ (filter_perm (fun t => Qlt_bool o t) _ _ P)) as M. fold (next_tempo c o) (next_tempo c' o) in M.
  destruct (next_tempo c o) as [e|], (next_tempo c' o) as [e'|]; simpl in M; try contradiction; [|reflexivity].
  pose proof (clip_compat lo hi e e' M) as C.
  destruct (Qlt_bool (clip lo hi o) (clip lo hi e)) eqn:?, (Qlt_bool (clip lo hi o) (clip lo hi e')) eqn:?; qbool; lra.
Qed.

Lemma idxmax_go_spec best l :
  In (idxmax_go best l) (best :: l) /\ forall x, In x (best :: l) -> snd x <= snd (idxmax_go best l).
Proof.
  revert best. induction l as [|y l IH]; intro best; simpl idxmax_go.
  - split; [left; reflexivity|]. intros x [Hx|[]]. subst. lra.
  - destruct (Qlt_bool (snd best) (snd y)) eqn:E.
    + apply Qlt_bool_iff in E. destruct (IH y) as [I1 I2]. split.
      * right. exact I1.
      * intros x [Hx|Hx]; [subst x|exact (I2 x Hx)]. specialize (I2 y (or_introl eq_refl)). lra.
    + apply Qlt_bool_false in E. destruct (IH best) as [I1 I2]. split.
      * destruct I1 as [I1|I1]; [left; exact I1|right; right; exact I1].
      * intros x [Hx|[Hx|Hx]]; [subst x; apply I2; left; reflexivity| |apply I2; right; exact Hx].
        subst x. specialize (I2 best (or_introl eq_refl)). lra.
Qed.
Lemma idxmax_spec l : l <> [] ->
  exists kv, idxmax l = Some (fst kv) /\ In kv l /\ forall x, In x l -> snd x <= snd kv.
Proof.
  destruct l as [|x l]; [congruence|]. intros _. exists (idxmax_go x l). simpl.
  destruct (idxmax_go_spec x l) as [I1 I2]. split; [reflexivity|]. split; assumption.
Qed.

Lemma qinsert_in x y l : In x (qinsert y l) <-> x = y \/ In x l.
Proof.
  induction l as [|a l IH]; simpl; [intuition|]. destruct (Qle_bool y a); simpl; [intuition|].
  rewrite IH. intuition.
Qed.
Lemma qsort_in x l : In x (qsort l) <-> In x l.
Proof. induction l as [|a l IH]; simpl; [tauto|]. rewrite qinsert_in, IH. intuition. Qed.
Lemma qdedup_in x l : In x (qdedup_sorted l) -> In x l.
Proof.
  induction l as [|a l IH]; [tauto|]. destruct l as [|b t]; [tauto|].
  change (In x (if Qeq_bool a b then qdedup_sorted (b :: t) else a :: qdedup_sorted (b :: t)) -> In x (a :: b :: t)).
  destruct (Qeq_bool a b); [intro H; right; auto|]. intros [H|H]; [left; exact H|right; auto].
Qed.
Lemma qdedup_covers x l : In x l -> exists k, In k (qdedup_sorted l) /\ k == x.
Proof.
  revert x. induction l as [|a l IH]; intro x; [intros []|]. destruct l as [|b t].
  - intros [H|[]]. subst. exists x. split; [left; reflexivity|reflexivity].
  - change (In x (a :: b :: t) -> exists k, In k (if Qeq_bool a b then qdedup_sorted (b :: t) else a :: qdedup_sorted (b :: t)) /\ k == x).
    destruct (Qeq_bool a b) eqn:E.
    + apply Qeq_bool_true in E. intros [H|H].
      * subst x. destruct (IH b (or_introl eq_refl)) as [k [K1 K2]]. exists k. split; [exact K1|lra].
      * exact (IH x H).
    + intros [H|H].
      * subst x. exists a. split; [left; reflexivity|reflexivity].
      * destruct (IH x H) as [k [K1 K2]]. exists k. split; [right; exact K1|exact K2].
Qed.
Lemma group_keys_in k rows : In k (group_keys rows) -> In k (map fst rows).
Proof. unfold group_keys. intro H. apply qdedup_in in H. exact (proj1 (qsort_in _ _) H). Qed.
Lemma group_keys_covers x rows : In x (map fst rows) -> exists k, In k (group_keys rows) /\ k == x.
Proof. unfold group_keys. intro H. apply qdedup_covers. exact (proj2 (qsort_in _ _) H). Qed.

Lemma wf_chart_pos c : wf_chart c = true -> forall r, In r (c_bpms c) -> 0 < snd r.
Proof.
  unfold wf_chart. destruct (first_tempo c); [|discriminate]. destruct (first_object c); [|discriminate].
  intro H. apply andb_true_iff in H. destruct H as [_ H]. rewrite forallb_forall in H.
  intros r Hr. apply Qlt_bool_iff. exact (H r Hr).
Qed.
Lemma diffs_length_map (f : Q -> Q) l x : length (diffs (map f (l ++ [x]))) = length l.
Proof. rewrite map_app. simpl map. rewrite diffs_length, map_length. reflexivity. Qed.

(* For EVERY chart of the property's domain (any row order, tempo points or SVs after the last note included),
   dominant_bpm returns a bpm value of the chart whose active time is maximal. *)
Theorem dominant_is_argmax c : wf_chart c = true -> dominant_spec 0 c (dominant_bpm c).
Proof.
  intros W. unfold wf_chart in W. destruct (first_tempo c) as [lo|] eqn:Eft; [|discriminate].
  destruct (first_object c) as [fo|] eqn:Efo; [|discriminate].
  apply andb_true_iff in W. destruct W as [W Wpos]. apply andb_true_iff in W. destruct W as [Wle Wd]. qbool.
  destruct (list_min_spec _ _ Eft) as [Ilo Blo]. destruct (list_min_spec _ _ Efo) as [Ifo Bfo].
  assert (Hn: c_notes c <> []) by (intro X; unfold first_object in Ifo; rewrite X in Ifo; destruct Ifo).
  destruct (list_max_some _ Hn) as [hi Elo]. destruct (list_max_spec _ _ Elo) as [Ihi Bhi].
  assert (Hlohi: lo <= hi) by (specialize (Bhi fo Ifo); lra).
  (* last = notes.max() *)
  destruct (qmax_list_some _ Hn) as [last El]. destruct (qmax_list_spec _ _ El) as [Il Bl].
  assert (Elast: last == hi) by (pose proof (Bl hi Ihi); pose proof (Bhi last Il); lra).
  (* the sorted rows *)
  set (rows := bsort (c_bpms c)).
  pose proof (bsort_perm (c_bpms c)) as P. fold rows in P.
  set (c' := mkChart rows (c_svs c) (c_notes c)).
  assert (Pt: Permutation (tempo_times c) (tempo_times c')).
  { unfold tempo_times, c'. simpl. apply Permutation_map. apply Permutation_sym. exact P. }
  assert (Sb: ssorted (tempo_times c')).
  { unfold tempo_times, c'. simpl. apply ksorted_distinct_ssorted; [apply bsort_ksorted|].
    apply (qdistinct_perm (tempo_times c)); [exact Pt|]. apply distinct_times_sound. exact Wd. }
  assert (Blo': forall t, In t (tempo_times c') -> lo <= t).
  { intros t Ht. apply Blo. apply (Permutation_in _ (Permutation_sym Pt)). exact Ht. }
  set (mrows := combine (map snd rows) (diffs (map (fun o => Qmin' o last) (map fst rows ++ [last])))).
  assert (Hrows: dominant_intervals c = Some mrows).
  { unfold dominant_intervals, last_offset. rewrite El. fold rows. rewrite diffs_length_map, map_length, Nat.eqb_refl. reflexivity. }
  assert (Hsum: forall k, group_sum k mrows == active_time c k).
  { intro k. unfold active_time, last_object. rewrite Eft, Elo.
    rewrite (sum_where_perm k (segment_time c lo hi) _ _ (Permutation_sym P)).
    rewrite (sum_where_ext k (segment_time c lo hi) (segment_time c' lo hi) rows (fun o => segment_time_perm c c' lo hi o Pt)).
    unfold mrows. apply (group_sum_active c' lo hi last k Sb Blo' Hlohi Elast rows []). reflexivity. }
  assert (Hfst: map fst mrows = map snd rows).
  { unfold mrows. apply map_fst_combine. rewrite diffs_length_map, !map_length. reflexivity. }
  assert (Hne: groupby_sum mrows <> []).
  { unfold groupby_sum. destruct rows as [|[o b] l] eqn:Eb.
    - apply Permutation_nil in P. unfold tempo_times in Ilo. rewrite P in Ilo. destruct Ilo.
    - assert (X: In b (map fst mrows)) by (rewrite Hfst; left; reflexivity).
      destruct (group_keys_covers _ _ X) as [k [K _]]. intro Y. apply map_eq_nil in Y. rewrite Y in K. destruct K. }
  destruct (idxmax_spec _ Hne) as [[k v] [Eid [Hin Hmax]]]. simpl fst in Eid. simpl snd in Hmax.
  unfold dominant_spec. exists k. split.
  { unfold dominant_bpm, dominant_groups. rewrite Hrows. exact Eid. }
  unfold groupby_sum in Hin. apply in_map_iff in Hin. destruct Hin as [k0 [Ek Hk]]. inversion Ek; subst k0 v. clear Ek.
  split.
  - apply group_keys_in in Hk. rewrite Hfst in Hk. apply in_map_iff in Hk. destruct Hk as [[o b'] [E1 E2]].
    exists o, b'. split; [exact (Permutation_in _ P E2)|]. simpl in E1. subst. reflexivity.
  - intros o b' Hin.
    assert (X: In b' (map fst mrows)).
    { rewrite Hfst. apply in_map_iff. exists (o, b'). split; [reflexivity|exact (Permutation_in _ (Permutation_sym P) Hin)]. }
    destruct (group_keys_covers _ _ X) as [k' [K1 K2]].
    assert (M: group_sum k' mrows <= group_sum k mrows).
    { apply (Hmax (k', group_sum k' mrows)). unfold groupby_sum. apply in_map_iff. exists k'. split; [reflexivity|exact K1]. }
    rewrite (group_sum_congr k' b' mrows K2) in M. rewrite (Hsum b'), (Hsum k) in M. lra.
Qed.

(* the dominant-bpm oracle is also complete, so [false] really is a counter-example *)
Lemma dominantb_complete tol c b : is_dominant tol c b -> dominantb tol c b = true.
Proof.
  intros [[o [b' [Hin Hb]]] H]. unfold dominantb. apply andb_true_iff. split.
  - apply existsb_exists. exists (o, b'). split; [exact Hin|]. apply Qeq_bool_true. exact Hb.
  - apply forallb_forall. intros [o1 b1] H1. apply Qle_bool_iff. exact (H o1 b1 H1).
Qed.
Theorem dominant_specb_complete tol c out : dominant_spec tol c out -> dominant_specb tol c out = true.
Proof. intros [b [E H]]. subst out. apply dominantb_complete. exact H. Qed.

(* ------------------------------------------------------------------ why the repair (commit d3e6d46) was needed:
   the same statement is FALSE of the OLD model [dominant_bpm_old] (positional pairing after sorting the offsets
   only; "last object" = max over all lists of the map) *)
Definition witness_unsorted := mkChart [(1000, 240); (0, 120)] None [0; 3000].
Definition witness_tempo_after_last := mkChart [(0, 120); (1000, 240); (10000, 60)] None [0; 1500].
Definition witness_sv_after_last := mkChart [(0, 120); (1000, 240)] (Some [(9000, 2)]) [0; 1500].

Lemma refute_by_oracle c out : dominant_specb 0 c out = false -> ~ dominant_spec 0 c out.
Proof. intros H X. apply dominant_specb_complete in X. congruence. Qed.

(* tempo rows out of time order: intervals credited to the wrong bpm (returned 120; 240 is active 2000 of 3000 ms) *)
Theorem dominant_old_refuted_unsorted :
  exists c, wf_chart c = true /\ dominant_bpm_old c = Some 120 /\ ~ dominant_spec 0 c (dominant_bpm_old c).
Proof. exists witness_unsorted. do 2 (split; [vm_compute; reflexivity|]). apply refute_by_oracle. vm_compute. reflexivity. Qed.
(* a tempo point after the last object: 9000 ms credited to 240, of which only 500 ms lie before the last object *)
Theorem dominant_old_refuted_tempo_after_last :
  exists c, wf_chart c = true /\ dominant_bpm_old c = Some 240 /\ ~ dominant_spec 0 c (dominant_bpm_old c).
Proof. exists witness_tempo_after_last. do 2 (split; [vm_compute; reflexivity|]). apply refute_by_oracle. vm_compute. reflexivity. Qed.
(* an SV after the last object extended the last tempo segment the same way *)
Theorem dominant_old_refuted_sv_after_last :
  exists c, wf_chart c = true /\ dominant_bpm_old c = Some 240 /\ ~ dominant_spec 0 c (dominant_bpm_old c).
Proof. exists witness_sv_after_last. do 2 (split; [vm_compute; reflexivity|]). apply refute_by_oracle. vm_compute. reflexivity. Qed.
(* the current model is right on the three witnesses *)
Lemma witnesses_now_ok :
  forallb (fun c => dominant_specb 0 c (dominant_bpm c) && scroll_specb 0 c None (scroll_speed c None))
          [witness_unsorted; witness_tempo_after_last; witness_sv_after_last] = true.
Proof. vm_compute. reflexivity. Qed.

(* ------------------------------------------------------------------ the reference bpm *)
Lemma reference_ok c ov :
  wf_chart c = true -> wf_override ov = true ->
  exists ref, reference_bpm c ov = Some ref /\ is_reference 0 c ov ref /\ 0 < ref.
Proof.
  intros W O. unfold reference_bpm, is_reference. destruct ov as [o|].
  - simpl in O. apply Qlt_bool_iff in O. exists o. split; [|split; [reflexivity|exact O]].
    destruct (Qeq_bool o 0) eqn:E; [|reflexivity]. apply Qeq_bool_true in E. lra.
  - destruct (dominant_is_argmax c W) as [b [E D]]. exists b. split; [exact E|]. split; [exact D|].
    destruct D as [[o [b' [Hin Hb]]] _]. pose proof (wf_chart_pos c W (o, b') Hin) as Pb. simpl in Pb. lra.
Qed.

(* SV normalisation: for every osu/Quaver chart of the domain (any row order) and every override > 0 or none:
   exactly one SV per tempo point, at its time, multiplier * bpm = reference *)
Theorem sv_normalize_spec c ov :
  wf_chart c = true -> wf_override ov = true -> c_svs c <> None -> norm_spec 0 c ov (sv_normalize c ov).
Proof.
  intros W O Sv. destruct (reference_ok c ov W O) as [ref [E [R _]]].
  unfold norm_spec, sv_normalize. rewrite E. destruct (c_svs c) as [svs|]; [|congruence].
  exists ref, (sv_normalize_with c ref). split; [reflexivity|]. split; [exact R|].
  apply sv_normalize_with_spec. apply wf_chart_pos. exact W.
Qed.

(* ------------------------------------------------------------------ D. scroll_speed, exhaustive small scope
   (kept as an independent cross-check of model + oracle; the statement for ALL charts of the domain -- with or
   without an SV list -- is proved in section E below (games without SVs) and in Proofs/ScrollSvProofs.v (charts
   with an SV list: [scroll_speed_with_sv], [scroll_speed_spec])).
   Here: the statement for EVERY chart of the small scope below (all row orders of <= 3 tempo rows on times {0,1,2}
   with bpms {1,2}; no SV list, or all sequences of <= 2 SV rows on times {-1..3} with multipliers {2, 1/2} -- so SVs
   before the first tempo point, at tempo points, coinciding with each other, after the last note; four note sets),
   reference 3, by evaluation of the proven-sound oracle on the model's output. *)
Fixpoint seqs_upto {A} (opts : list A) (n : nat) : list (list A) :=
  match n with
  | O => [[]]
  | S n' => [] :: flat_map (fun x => map (cons x) (seqs_upto opts n')) opts
  end.
Definition pairs (ts vs : list Q) : list (Q * Q) := flat_map (fun t => map (fun v => (t, v)) vs) ts.
Definition small_tempos : list (list (Q * Q)) := seqs_upto (pairs [0; 1; 2] [1; 2]) 3.
Definition small_svs : list (option (list (Q * Q))) :=
  None :: map Some (seqs_upto (pairs [-1; 0; 1; 2; 3] [2; 1 # 2]) 2).
Definition small_notes : list (list Q) := [[0]; [2]; [3; 1]; [1]].
Definition forall_small (p : chart -> bool) : bool :=
  forallb (fun b => forallb (fun s => forallb (fun n => p (mkChart b s n)) small_notes) small_svs) small_tempos.
Definition scroll_check (ref : Q) (c : chart) : bool :=
  negb (wf_chart c) || match scroll_speed_with c ref with Some o => scroll_okb 0 c ref o | None => false end.

Lemma scroll_small_scope_computed : forall_small (scroll_check 3) = true.
Proof. vm_compute. reflexivity. Qed.

Lemma forall_small_elim p : forall_small p = true ->
  forall b s n, In b small_tempos -> In s small_svs -> In n small_notes -> p (mkChart b s n) = true.
Proof.
  unfold forall_small. intros H b s n Hb Hs Hn.
  rewrite forallb_forall in H. specialize (H b Hb). rewrite forallb_forall in H. specialize (H s Hs).
  rewrite forallb_forall in H. exact (H n Hn).
Qed.

Theorem scroll_speed_small_scope b s n :
  In b small_tempos -> In s small_svs -> In n small_notes -> wf_chart (mkChart b s n) = true ->
  exists o, scroll_speed_with (mkChart b s n) 3 = Some o /\ scroll_ok 0 (mkChart b s n) 3 o.
Proof.
  intros Hb Hs Hn W.
  pose proof (forall_small_elim (scroll_check 3) scroll_small_scope_computed b s n Hb Hs Hn) as H.
  unfold scroll_check in H. apply orb_true_iff in H. destruct H as [H|H].
  - apply negb_true_iff in H. congruence.
  - destruct (scroll_speed_with (mkChart b s n) 3) as [o|]; [|discriminate].
    exists o. split; [reflexivity|]. apply scroll_okb_sound. exact H.
Qed.

(* ================================================================== E. scroll_speed for all inputs *)
(* ---------- latest_le: a left fold; on time-ordered rows it returns the last row at or before t *)
Lemma latest_le_app t A B acc : latest_le t (A ++ B) acc = latest_le t B (latest_le t A acc).
Proof. revert acc. induction A as [|a A IH]; intro acc; simpl; [reflexivity|apply IH]. Qed.
Lemma latest_le_skip t B acc : (forall x, In x B -> t < fst x) -> latest_le t B acc = acc.
Proof.
  revert acc. induction B as [|b B IH]; intros acc H; simpl; [reflexivity|].
  assert (E: Qle_bool (fst b) t = false) by (apply Qle_bool_false; apply H; left; reflexivity).
  rewrite E. apply IH. intros x Hx. apply H. right. exact Hx.
Qed.
Lemma latest_le_in t A acc r : latest_le t A acc = Some r -> acc = Some r \/ (In r A /\ fst r <= t).
Proof.
  revert acc. induction A as [|a A IH]; intros acc H; simpl in H; [left; exact H|].
  apply IH in H. destruct H as [H|[H1 H2]]; [|right; split; [right; exact H1|exact H2]].
  destruct (Qle_bool (fst a) t) eqn:E; [|left; exact H]. qbool.
  destruct acc as [x|].
  - destruct (Qle_bool (fst x) (fst a)); [|left; exact H]. inversion H; subst. right. split; [left; reflexivity|exact E].
  - inversion H; subst. right. split; [left; reflexivity|exact E].
Qed.
Lemma latest_le_last t A r :
  ssorted (map fst (A ++ [r])) -> fst r <= t -> latest_le t (A ++ [r]) None = Some r.
Proof.
  intros S H. rewrite latest_le_app. simpl.
  assert (E: Qle_bool (fst r) t = true) by (apply Qle_bool_iff; exact H). rewrite E.
  destruct (latest_le t A None) as [x|] eqn:L; [|reflexivity].
  apply latest_le_in in L. destruct L as [L|[L _]]; [discriminate|].
  rewrite map_app in S. destruct (ssorted_app_inv _ _ S) as [_ R].
  assert (Lt: fst x < fst r) by (apply R; [apply in_map; exact L|left; reflexivity]).
  assert (E2: Qle_bool (fst x) (fst r) = true) by (apply Qle_bool_iff; lra). rewrite E2. reflexivity.
Qed.
Lemma latest_le_split t A r B :
  ssorted (map fst (A ++ [r])) -> fst r <= t -> (forall x, In x B -> t < fst x) ->
  latest_le t (A ++ r :: B) None = Some r.
Proof.
  intros S H HB. change (A ++ r :: B) with (A ++ [r] ++ B). rewrite app_assoc, latest_le_app.
  rewrite (latest_le_last t A r S H). apply latest_le_skip. exact HB.
Qed.

Lemma ssorted_prefix l1 l2 : ssorted (l1 ++ l2) -> ssorted l1.
Proof.
  induction l1 as [|a l1 IH]; simpl; [intros; exact I|]. intros [H1 H2]. split; [|auto].
  intros x Hx. apply H1. apply in_or_app. left. exact Hx.
Qed.
Lemma ssorted_snoc_prefix (A : list (Q * Q)) r B : ssorted (map fst (A ++ r :: B)) -> ssorted (map fst (A ++ [r])).
Proof.
  intro H. assert (E: A ++ r :: B = (A ++ [r]) ++ B) by (rewrite <- app_assoc; reflexivity).
  rewrite E, map_app in H. apply ssorted_prefix in H. exact H.
Qed.

(* ---------- ffill over key-ordered rows *)
Definition somes (l : list orow) : list (Q * Q) :=
  flat_map (fun r => match snd r with Some v => [(fst r, v)] | None => [] end) l.
Fixpoint oksorted (l : list orow) : Prop :=
  match l with [] => True | a :: t => (forall x, In x t -> fst a <= fst x) /\ oksorted t end.
(* a None row is never followed by a filled row with the same (or a smaller) key *)
Fixpoint stable_ok (l : list orow) : Prop :=
  match l with
  | [] => True
  | a :: t => (snd a = None -> forall x, In x t -> snd x <> None -> fst a < fst x) /\ stable_ok t
  end.
Fixpoint lastopt {A} (l : list A) : option A :=
  match l with [] => None | x :: t => match t with [] => Some x | _ => lastopt t end end.
Lemma lastopt_snoc {A} (l : list A) x : lastopt (l ++ [x]) = Some x.
Proof. induction l as [|a l IH]; [reflexivity|]. simpl. destruct (l ++ [x]) eqn:E; [destruct l; discriminate|]. exact IH. Qed.
Lemma lastopt_split {A} (l : list A) x : lastopt l = Some x -> exists l', l = l' ++ [x].
Proof.
  induction l as [|a l IH]; [discriminate|]. simpl. destruct l as [|b l].
  - intro H. inversion H. exists []. reflexivity.
  - intro H. destruct (IH H) as [l' E]. exists (a :: l'). rewrite E. reflexivity.
Qed.
Lemma lastopt_none {A} (l : list A) : lastopt l = None -> l = [].
Proof.
  induction l as [|a l IH]; [reflexivity|]. simpl. destruct l as [|b l]; [discriminate|].
  intro H. apply IH in H. discriminate.
Qed.
Lemma somes_in x l : In x (somes l) <-> In (fst x, Some (snd x)) l.
Proof.
  unfold somes. rewrite in_flat_map. split.
  - intros [[k v] [H1 H2]]. simpl in H2. destruct v as [v|]; [|destruct H2]. destruct H2 as [H2|[]]. subst x. exact H1.
  - intro H. exists (fst x, Some (snd x)). split; [exact H|]. simpl. left. destruct x; reflexivity.
Qed.

Definition sem (S : list (Q * Q)) (r : orow) : orow := (fst r, option_map snd (latest_le (fst r) S None)).

Lemma ffill_go_char Y : forall acc,
  oksorted Y -> stable_ok Y -> ssorted (map fst (acc ++ somes Y)) ->
  (forall a y, In a acc -> In y Y -> fst a <= fst y) ->
  ffill_go (option_map snd (lastopt acc)) Y = map (sem (acc ++ somes Y)) Y.
Proof.
  induction Y as [|[t v] Y IH]; intros acc K St Ss B; [reflexivity|].
  destruct K as [K1 K2]. destruct St as [St1 St2].
  destruct v as [b|].
  - (* a filled row: it is itself the latest row at or before its key *)
    change (somes ((t, Some b) :: Y)) with ((t, b) :: somes Y) in *. cbn [ffill_go map].
    assert (L: latest_le t (acc ++ (t, b) :: somes Y) None = Some (t, b)).
    { apply latest_le_split.
      - apply (ssorted_snoc_prefix acc (t, b) (somes Y)). exact Ss.
      - simpl. lra.
      - intros x Hx. rewrite map_app in Ss. simpl map in Ss. destruct (ssorted_app_inv _ _ Ss) as [[S1 _] _].
        simpl. apply S1. apply in_map. exact Hx. }
    unfold sem at 1. simpl fst. rewrite L. simpl option_map. f_equal.
    specialize (IH (acc ++ [(t, b)])). rewrite lastopt_snoc in IH. simpl option_map in IH.
    rewrite <- app_assoc in IH. simpl app in IH. apply IH; [exact K2|exact St2|exact Ss|].
    intros a y Ha Hy. apply in_app_or in Ha. destruct Ha as [Ha|[Ha|[]]]; [apply B; [exact Ha|right; exact Hy]|].
    subst a. simpl. apply (K1 y Hy).
  - (* a None row takes the previous filled value: every filled row at or before its key lies before it *)
    change (somes ((t, None) :: Y)) with (somes Y) in *. cbn [ffill_go map].
    assert (After: forall x, In x (somes Y) -> t < fst x).
    { intros x Hx. apply somes_in in Hx. apply (St1 eq_refl _ Hx). simpl. discriminate. }
    assert (L: option_map snd (latest_le t (acc ++ somes Y) None) = option_map snd (lastopt acc)).
    { destruct (lastopt acc) as [r|] eqn:E.
      - destruct (lastopt_split _ _ E) as [acc' E']. subst acc. rewrite <- app_assoc. simpl app.
        rewrite latest_le_split; [reflexivity| | |exact After].
        + apply (ssorted_snoc_prefix acc' r (somes Y)). rewrite <- app_assoc in Ss. exact Ss.
        + apply (B r (t, None)); [apply in_or_app; right; left; reflexivity|left; reflexivity].
      - apply lastopt_none in E. subst acc.
        simpl app. rewrite latest_le_skip; [reflexivity|exact After]. }
    unfold sem at 1. simpl fst. rewrite L. f_equal.
    destruct (lastopt acc) as [r|] eqn:E; simpl option_map.
    + rewrite <- E in *. rewrite <- (f_equal (option_map snd) E) at 1. apply IH; [exact K2|exact St2|exact Ss|].
      intros a y Ha Hy. apply B; [exact Ha|right; exact Hy].
    + change None with (option_map (@snd Q Q) None). rewrite <- E. apply IH; [exact K2|exact St2|exact Ss|].
      intros a y Ha Hy. apply B; [exact Ha|right; exact Hy].
Qed.

(* ---------- more on latest_le / earliest; independence of the row order when times are distinct *)
Lemma latest_le_is_some t L : forall acc, (acc <> None \/ exists x, In x L /\ fst x <= t) -> latest_le t L acc <> None.
Proof.
  induction L as [|a L IH]; intros acc H; simpl.
  - destruct H as [H|[x [[] _]]]. exact H.
  - apply IH. destruct (Qle_bool (fst a) t) eqn:E; qbool.
    + left. destruct acc as [y|]; [destruct (Qle_bool (fst y) (fst a))|]; discriminate.
    + destruct H as [H|[x [[Hx|Hx] Hle]]]; [left; exact H|subst; lra|right; exists x; split; assumption].
Qed.
Lemma latest_le_max t L : forall acc r, latest_le t L acc = Some r ->
  (forall a, acc = Some a -> fst a <= fst r) /\ (forall x, In x L -> fst x <= t -> fst x <= fst r).
Proof.
  induction L as [|a L IH]; intros acc r H; simpl in H.
  - subst acc. split; [intros a E; inversion E; lra|intros x []].
  - apply IH in H. destruct H as [H1 H2]. destruct (Qle_bool (fst a) t) eqn:E; qbool.
    + destruct acc as [y|].
      * destruct (Qle_bool (fst y) (fst a)) eqn:E2; qbool.
        -- pose proof (H1 a eq_refl). split; [intros z Ez; inversion Ez; subst; lra|].
           intros x [Hx|Hx] Hle; [subst; lra|auto].
        -- pose proof (H1 y eq_refl). split; [intros z Ez; inversion Ez; subst; lra|].
           intros x [Hx|Hx] Hle; [subst; lra|auto].
      * pose proof (H1 a eq_refl). split; [intros z Ez; discriminate|]. intros x [Hx|Hx] Hle; [subst; lra|auto].
    + split; [exact H1|]. intros x [Hx|Hx] Hle; [subst; lra|auto].
Qed.
Lemma distinct_inj (L : list (Q * Q)) r r' :
  qdistinct (map fst L) -> In r L -> In r' L -> fst r == fst r' -> r = r'.
Proof.
  induction L as [|a L IH]; simpl; [intros _ []|]. intros [D1 D2] [H|H] [H'|H'] E.
  - congruence.
  - subst a. exfalso. apply (D1 (fst r')); [apply in_map; exact H'|exact E].
  - subst a. exfalso. apply (D1 (fst r)); [apply in_map; exact H|lra].
  - auto.
Qed.
Lemma latest_le_perm t L L' :
  Permutation L L' -> qdistinct (map fst L) -> latest_le t L None = latest_le t L' None.
Proof.
  intros P D.
  destruct (latest_le t L None) as [r|] eqn:E1, (latest_le t L' None) as [r'|] eqn:E2; try reflexivity.
  - destruct (latest_le_in _ _ _ _ E1) as [X|[I1 Le1]]; [discriminate|].
    destruct (latest_le_in _ _ _ _ E2) as [X|[I2 Le2]]; [discriminate|].
    destruct (latest_le_max _ _ _ _ E1) as [_ M1]. destruct (latest_le_max _ _ _ _ E2) as [_ M2].
    pose proof (M1 r' (Permutation_in _ (Permutation_sym P) I2) Le2).
    pose proof (M2 r (Permutation_in _ P I1) Le1).
    f_equal. apply (distinct_inj L); [exact D|exact I1|exact (Permutation_in _ (Permutation_sym P) I2)|lra].
  - exfalso. destruct (latest_le_in _ _ _ _ E1) as [X|[I1 Le1]]; [discriminate|].
    apply (latest_le_is_some t L' None); [|exact E2]. right. exists r. split; [exact (Permutation_in _ P I1)|exact Le1].
  - exfalso. destruct (latest_le_in _ _ _ _ E2) as [X|[I2 Le2]]; [discriminate|].
    apply (latest_le_is_some t L None); [|exact E1]. right. exists r'. split; [exact (Permutation_in _ (Permutation_sym P) I2)|exact Le2].
Qed.

Lemma earliest_spec L : forall acc r, earliest L acc = Some r ->
  (acc = Some r \/ In r L) /\ (forall a, acc = Some a -> fst r <= fst a) /\ (forall x, In x L -> fst r <= fst x).
Proof.
  induction L as [|a L IH]; intros acc r H; simpl in H.
  - subst acc. split; [left; reflexivity|]. split; [intros a E; inversion E; lra|intros x []].
  - apply IH in H. destruct H as [H0 [H1 H2]]. destruct acc as [y|].
    + destruct (Qlt_bool (fst a) (fst y)) eqn:E; qbool.
      * pose proof (H1 a eq_refl). split; [destruct H0 as [H0|H0]; [inversion H0; right; left; reflexivity|right; right; exact H0]|].
        split; [intros z Ez; inversion Ez; subst; lra|]. intros x [Hx|Hx]; [subst; lra|auto].
      * pose proof (H1 y eq_refl). split; [destruct H0 as [H0|H0]; [left; exact H0|right; right; exact H0]|].
        split; [exact H1|]. intros x [Hx|Hx]; [subst; lra|auto].
    + pose proof (H1 a eq_refl). split; [destruct H0 as [H0|H0]; [inversion H0; right; left; reflexivity|right; right; exact H0]|].
      split; [intros z Ez; discriminate|]. intros x [Hx|Hx]; [subst; lra|auto].
Qed.
Lemma earliest_some L : forall acc, (acc <> None \/ L <> []) -> earliest L acc <> None.
Proof.
  induction L as [|a L IH]; intros acc H; simpl; [destruct H as [H|H]; [exact H|congruence]|].
  apply IH. left. destruct acc as [y|]; [destruct (Qlt_bool (fst a) (fst y))|]; discriminate.
Qed.
Lemma earliest_min L r :
  qdistinct (map fst L) -> In r L -> (forall x, In x L -> fst r <= fst x) -> earliest L None = Some r.
Proof.
  intros D I M. destruct (earliest L None) as [r'|] eqn:E.
  - destruct (earliest_spec _ _ _ E) as [[X|I'] [_ M']]; [discriminate|].
    f_equal. apply (distinct_inj L); [exact D|exact I'|exact I|]. pose proof (M r' I'). pose proof (M' r I). lra.
  - exfalso. apply (earliest_some L None); [right; intro X; subst L; destruct I|exact E].
Qed.

(* ---------- the stable sort of the frame rows *)
Lemma oinsert_perm x l : Permutation (oinsert x l) (x :: l).
Proof.
  induction l as [|y l IH]; simpl; [apply Permutation_refl|]. destruct (Qle_bool (fst x) (fst y)); [apply Permutation_refl|].
  apply perm_trans with (y :: x :: l); [apply perm_skip; exact IH|apply perm_swap].
Qed.
Lemma osort_perm l : Permutation (osort l) l.
Proof.
  induction l as [|x l IH]; simpl; [constructor|].
  apply perm_trans with (x :: osort l); [apply oinsert_perm|apply perm_skip; exact IH].
Qed.
Lemma oinsert_oksorted x l : oksorted l -> oksorted (oinsert x l).
Proof.
  induction l as [|y l IH]; simpl; intro H; [split; [intros ? []|exact I]|].
  destruct H as [H1 H2]. destruct (Qle_bool (fst x) (fst y)) eqn:E; qbool.
  - split; [|split; assumption]. intros z [Hz|Hz]; [subst; exact E|]. specialize (H1 z Hz). lra.
  - split; [|apply IH; exact H2]. intros z Hz.
    apply (Permutation_in _ (oinsert_perm x l)) in Hz. destruct Hz as [Hz|Hz]; [subst; lra|auto].
Qed.
Lemma osort_oksorted l : oksorted (osort l).
Proof. induction l as [|x l IH]; simpl; [exact I|]. apply oinsert_oksorted. exact IH. Qed.
Lemma oinsert_stable a l : snd a <> None -> stable_ok l -> stable_ok (oinsert a l).
Proof.
  intro Ha. induction l as [|y l IH]; simpl; intro H; [split; [intro; contradiction|exact I]|].
  destruct H as [H1 H2]. destruct (Qle_bool (fst a) (fst y)) eqn:E; qbool.
  - split; [intro; contradiction|]. split; assumption.
  - split; [|apply IH; exact H2]. intros Hy x Hx Hs.
    apply (Permutation_in _ (oinsert_perm a l)) in Hx. destruct Hx as [Hx|Hx]; [subst; exact E|auto].
Qed.
Lemma all_none_stable l : (forall x, In x l -> snd x = None) -> stable_ok l.
Proof.
  induction l as [|a l IH]; simpl; intro H; [exact I|]. split; [|apply IH; intros; apply H; right; assumption].
  intros _ x Hx Hs. exfalso. apply Hs. apply H. right. exact Hx.
Qed.
Lemma osort_app_stable A N :
  (forall x, In x A -> snd x <> None) -> (forall x, In x N -> snd x = None) -> stable_ok (osort (A ++ N)).
Proof.
  intros HA HN. induction A as [|a A IH]; simpl.
  - apply all_none_stable. intros x Hx. apply HN. exact (Permutation_in _ (osort_perm N) Hx).
  - apply oinsert_stable; [apply HA; left; reflexivity|]. apply IH. intros x Hx. apply HA. right. exact Hx.
Qed.

Lemma somes_app A B : somes (A ++ B) = somes A ++ somes B.
Proof. unfold somes. apply flat_map_app. Qed.
Lemma somes_perm l l' : Permutation l l' -> Permutation (somes l) (somes l').
Proof.
  induction 1 as [|x l l' P IH|x y l|l l' l'' P1 IH1 P2 IH2].
  - constructor.
  - change (x :: l) with ([x] ++ l). change (x :: l') with ([x] ++ l'). rewrite !somes_app. apply Permutation_app_head. exact IH.
  - change (y :: x :: l) with ([y] ++ [x] ++ l). change (x :: y :: l) with ([x] ++ [y] ++ l). rewrite !somes_app.
    rewrite !app_assoc. apply Permutation_app_tail. apply Permutation_app_comm.
  - eapply perm_trans; eassumption.
Qed.
Lemma somes_ksorted Y : oksorted Y -> ksorted (somes Y).
Proof.
  induction Y as [|[t v] Y IH]; simpl; [tauto|]. intros [K1 K2]. destruct v as [b|].
  - change (somes ((t, Some b) :: Y)) with ((t, b) :: somes Y). split; [|auto].
    intros x Hx. apply somes_in in Hx. exact (K1 _ Hx).
  - change (somes ((t, None) :: Y)) with (somes Y). auto.
Qed.
Lemma somes_tempo rows : somes (map (fun r : Q * Q => (fst r, Some (snd r))) rows) = rows.
Proof. induction rows as [|[o b] rows IH]; [reflexivity|]. simpl map. change (somes ((o, Some b) :: ?l)) with ((o, b) :: somes l). rewrite IH. reflexivity. Qed.

(* ---------- ffill / bfill bookkeeping *)
Lemma ffill_go_keys p l : map fst (ffill_go p l) = map fst l.
Proof. revert p. induction l as [|[k v] l IH]; intro p; [reflexivity|]. cbn [ffill_go map fst]. rewrite IH. reflexivity. Qed.
Lemma bfill_keys l : map fst (bfill l) = map fst l.
Proof. induction l as [|[k v] l IH]; [reflexivity|]. cbn [bfill map fst]. rewrite IH. reflexivity. Qed.
Lemma ffill_go_all_none N Z : (forall x, In x N -> snd x = None) -> ffill_go None (N ++ Z) = N ++ ffill_go None Z.
Proof.
  induction N as [|[k v] N IH]; intro H; [reflexivity|].
  assert (E: v = None) by (apply (H (k, v)); left; reflexivity). subst v.
  cbn [app ffill_go]. f_equal. apply IH. intros x Hx. apply H. right. exact Hx.
Qed.
Lemma bfill_all_some L : (forall x, In x L -> snd x <> None) -> bfill L = L.
Proof.
  induction L as [|[k v] L IH]; intro H; [reflexivity|]. destruct v as [v|]; [|exfalso; apply (H (k, None)); [left|]; reflexivity].
  cbn [bfill]. f_equal. apply IH. intros x Hx. apply H. right. exact Hx.
Qed.
Lemma bfill_none_prefix N t b R : (forall x, In x N -> snd x = None) ->
  bfill (N ++ (t, Some b) :: R) = map (fun x => (fst x, Some b)) N ++ bfill ((t, Some b) :: R).
Proof.
  induction N as [|[k v] N IH]; intro H; [reflexivity|].
  assert (E: v = None) by (apply (H (k, v)); left; reflexivity). subst v.
  cbn [app]. change (bfill ((k, None) :: N ++ (t, Some b) :: R))
    with (let r := bfill (N ++ (t, Some b) :: R) in (k, match r with (_, w) :: _ => w | [] => None end) :: r).
  rewrite IH by (intros x Hx; apply H; right; exact Hx). cbv zeta. cbn [map fst app]. f_equal.
  destruct N as [|[k' v'] N]; reflexivity.
Qed.
Lemma somes_all_none N : (forall x, In x N -> snd x = None) -> somes N = [].
Proof.
  induction N as [|[k v] N IH]; intro H; [reflexivity|].
  assert (E: v = None) by (apply (H (k, v)); left; reflexivity). subst v.
  change (somes ((k, None) :: N)) with (somes N). apply IH. intros x Hx. apply H. right. exact Hx.
Qed.
Lemma split_first_some Y : somes Y <> [] ->
  exists N t b Z, Y = N ++ (t, Some b) :: Z /\ (forall x, In x N -> snd x = None).
Proof.
  induction Y as [|[k v] Y IH]; intro H; [exfalso; apply H; reflexivity|]. destruct v as [b|].
  - exists [], k, b, Y. split; [reflexivity|intros x []].
  - change (somes ((k, None) :: Y)) with (somes Y) in H. destruct (IH H) as [N [t [b [Z [E HN]]]]].
    exists ((k, None) :: N), t, b, Z. split; [rewrite E; reflexivity|]. intros x [Hx|Hx]; [subst; reflexivity|auto].
Qed.
Lemma oksorted_app_inv N Z : oksorted (N ++ Z) -> oksorted Z.
Proof. induction N as [|a N IH]; simpl; [tauto|]. intros [_ H]. auto. Qed.
Lemma stable_ok_app_inv N Z : stable_ok (N ++ Z) -> stable_ok Z.
Proof. induction N as [|a N IH]; simpl; [tauto|]. intros [_ H]. auto. Qed.
Lemma stable_ok_app N Z : stable_ok (N ++ Z) ->
  forall x y, In x N -> snd x = None -> In y Z -> snd y <> None -> fst x < fst y.
Proof.
  induction N as [|a N IH]; simpl; intros H x y Hx; [destruct Hx|]. destruct H as [H1 H2].
  destruct Hx as [Hx|Hx]; [subst a|eauto]. intros Hn Hy Hs. apply (H1 Hn); [apply in_or_app; right; exact Hy|exact Hs].
Qed.

(* ---------- the bpm step function (bpm_frame): every row carries the active bpm at its key *)
Section Frame.
  Variables (c : chart) (omin omax : Q).
  Hypothesis D : qdistinct (tempo_times c).
  Hypothesis Hne : c_bpms c <> [].
  Let X : list orow := map (fun r : Q * Q => (fst r, Some (snd r))) (c_bpms c) ++ [(omin, None); (omax, None)].

  Lemma filled_rows : forall r, In r (bfill (ffill (osort X))) -> exists b, snd r = Some b /\ bpm_at c (fst r) = Some b.
  Proof.
    set (Y := osort X). pose proof (osort_perm X) as P. fold Y in P.
    assert (PS: Permutation (somes Y) (c_bpms c)).
    { apply perm_trans with (somes X); [apply somes_perm; exact P|]. unfold X. rewrite somes_app, somes_tempo.
      change (somes [(omin, None); (omax, None)]) with (@nil (Q * Q)). rewrite app_nil_r. apply Permutation_refl. }
    assert (DS: qdistinct (map fst (somes Y))).
    { apply (qdistinct_perm (tempo_times c)); [|exact D]. unfold tempo_times. apply Permutation_map. apply Permutation_sym. exact PS. }
    assert (KY: oksorted Y) by apply osort_oksorted.
    assert (StY: stable_ok Y).
    { unfold Y, X. apply osort_app_stable.
      - intros x Hx. apply in_map_iff in Hx. destruct Hx as [r [E _]]. subst x. simpl. discriminate.
      - intros x [Hx|[Hx|[]]]; subst x; reflexivity. }
    assert (SS: ssorted (map fst (somes Y))) by (apply ksorted_distinct_ssorted; [apply somes_ksorted; exact KY|exact DS]).
    assert (Sne: somes Y <> []).
    { intro E. rewrite E in PS. apply Permutation_nil in PS. exact (Hne PS). }
    destruct (split_first_some Y Sne) as [N [t1 [b1 [Z' [EY HN]]]]].
    set (Z := (t1, Some b1) :: Z') in *.
    assert (ES: somes Y = somes Z) by (rewrite EY, somes_app, (somes_all_none N HN); reflexivity).
    set (S := somes Z) in *. rewrite ES in PS, DS, SS, Sne.
    assert (KZ: oksorted Z) by (rewrite EY in KY; exact (oksorted_app_inv _ _ KY)).
    assert (StZ: stable_ok Z) by (rewrite EY in StY; exact (stable_ok_app_inv _ _ StY)).
    assert (EF: ffill Y = N ++ map (sem S) Z).
    { unfold ffill. rewrite EY, (ffill_go_all_none N Z HN). f_equal.
      apply (ffill_go_char Z [] KZ StZ SS). intros a y []. }
    assert (Hsome: forall z, In z Z -> exists r0, latest_le (fst z) S None = Some r0).
    { intros z Hz. destruct (latest_le (fst z) S None) as [r0|] eqn:E; [exists r0; reflexivity|]. exfalso.
      apply (latest_le_is_some (fst z) S None); [|exact E]. right. exists (t1, b1). split; [left; reflexivity|].
      destruct Hz as [Hz|Hz]; [subst z; simpl; lra|]. destruct KZ as [K1 _]. exact (K1 z Hz). }
    assert (Ehd: sem S (t1, Some b1) = (t1, Some b1)).
    { unfold sem. simpl fst. change S with ([] ++ (t1, b1) :: somes Z').
      rewrite latest_le_split; [reflexivity|simpl; split; [intros x []|exact I]|simpl; lra|].
      intros x Hx. destruct SS as [S1 _]. apply S1. apply in_map. exact Hx. }
    assert (EB: bfill (ffill Y) = map (fun x => (fst x, Some b1)) N ++ map (sem S) Z).
    { rewrite EF. unfold Z at 1. cbn [map]. rewrite Ehd. rewrite (bfill_none_prefix N t1 b1 _ HN). f_equal.
      rewrite <- Ehd. change (sem S (t1, Some b1) :: map (sem S) Z') with (map (sem S) Z). apply bfill_all_some.
      intros x Hx. apply in_map_iff in Hx. destruct Hx as [z [Ex Hz]]. subst x. destruct (Hsome z Hz) as [r0 E].
      unfold sem. cbn [snd fst]. rewrite E. discriminate. }
    intros r Hr. fold Y in Hr. rewrite EB in Hr. apply in_app_or in Hr. destruct Hr as [Hr|Hr].
    - (* rows before the first tempo point take the first tempo point's bpm *)
      apply in_map_iff in Hr. destruct Hr as [x [Er Hx]]. subst r. exists b1. split; [reflexivity|]. simpl fst.
      unfold bpm_at.
      assert (In1: In (t1, b1) (c_bpms c)) by (apply (Permutation_in _ PS); left; reflexivity).
      assert (Lnone: latest_le (fst x) (c_bpms c) None = None).
      { destruct (latest_le (fst x) (c_bpms c) None) as [r'|] eqn:E; [|reflexivity]. exfalso.
        destruct (latest_le_in _ _ _ _ E) as [Q0|[I' Le']]; [discriminate|].
        apply (Permutation_in _ (Permutation_sym PS)) in I'. apply somes_in in I'.
        assert (StNZ: stable_ok (N ++ Z)) by (rewrite <- EY; exact StY).
        pose proof (stable_ok_app N Z StNZ x _ Hx (HN x Hx) I') as SA.
        simpl in SA. assert (fst x < fst r') by (apply SA; discriminate). lra. }
      rewrite Lnone. rewrite (earliest_min (c_bpms c) (t1, b1) D In1); [reflexivity|].
      intros y Hy. apply (Permutation_in _ (Permutation_sym PS)) in Hy. destruct Hy as [Hy|Hy]; [rewrite <- Hy; apply Qle_refl|].
      destruct SS as [S1 _]. cbn [fst]. apply Qlt_le_weak. apply S1. apply in_map. exact Hy.
    - apply in_map_iff in Hr. destruct Hr as [z [Er Hz]]. subst r. destruct (Hsome z Hz) as [r0 E].
      exists (snd r0). unfold sem. cbn [snd fst]. rewrite E. split; [reflexivity|]. unfold bpm_at.
      rewrite (latest_le_perm (fst z) (c_bpms c) S (Permutation_sym PS) D), E. reflexivity.
  Qed.

  Lemma filled_keys : forall x, In x X -> exists r, In r (bfill (ffill (osort X))) /\ fst r = fst x.
  Proof.
    intros x Hx. assert (K: In (fst x) (map fst (bfill (ffill (osort X))))).
    { unfold ffill. rewrite bfill_keys, ffill_go_keys. apply in_map. apply (Permutation_in _ (Permutation_sym (osort_perm X))). exact Hx. }
    apply in_map_iff in K. destruct K as [r [E Hr]]. exists r. split; assumption.
  Qed.
End Frame.

Lemma dedup_go_in seen l x : In x (dedup_go seen l) -> In x l.
Proof.
  revert seen. induction l as [|a l IH]; intro seen; simpl; [tauto|].
  destruct (existsb (orow_eq a) seen); [intro H; right; eauto|]. intros [H|H]; [left; exact H|right; eauto].
Qed.
Lemma dedup_go_covers l : forall seen x, In x l -> exists y, (In y (dedup_go seen l) \/ In y seen) /\ orow_eq x y = true.
Proof.
  induction l as [|a l IH]; intros seen x Hx; [destruct Hx|]. simpl. destruct Hx as [Hx|Hx].
  - subst a. destruct (existsb (orow_eq x) seen) eqn:E.
    + apply existsb_exists in E. destruct E as [y [Hy E]]. exists y. split; [right; exact Hy|exact E].
    + exists x. split; [left; left; reflexivity|]. unfold orow_eq. destruct x as [k [v|]]; simpl;
      rewrite ?Qeq_bool_refl; reflexivity.
  - destruct (existsb (orow_eq a) seen).
    + exact (IH seen x Hx).
    + destruct (IH (a :: seen) x Hx) as [y [[Hy|[Hy|Hy]] E]]; exists y; (split; [|exact E]).
      * left. right. exact Hy.
      * left. left. exact Hy.
      * right. exact Hy.
Qed.

(* ---------- scroll_speed on charts of games without SVs (BMS, O2Jam, StepMania): all inputs *)
Lemma qmin_list_some l : l <> [] -> exists m, qmin_list l = Some m.
Proof. destruct l as [|a l]; [congruence|]. intros _. simpl. destruct (qmin_list l); eauto. Qed.

Lemma wf_chart_distinct c : wf_chart c = true -> qdistinct (tempo_times c) /\ c_bpms c <> [].
Proof.
  unfold wf_chart. destruct (first_tempo c) as [lo|] eqn:E; [|discriminate]. destruct (first_object c); [|discriminate].
  intro H. apply andb_true_iff in H. destruct H as [H _]. apply andb_true_iff in H. destruct H as [_ H]. split.
  - apply distinct_times_sound. exact H.
  - intro X. unfold first_tempo, tempo_times in E. rewrite X in E. discriminate.
Qed.

(* For every chart of the domain of a game without SVs (any row order) and every reference: the speed at every
   breakpoint is active bpm / reference, and every tempo point is a breakpoint. *)
Theorem scroll_speed_with_nosv c ref :
  wf_chart c = true -> c_svs c = None -> exists o, scroll_speed_with c ref = Some o /\ scroll_ok 0 c ref o.
Proof.
  intros W Hsv. destruct (wf_chart_distinct c W) as [D Hne].
  assert (Hst: stack_offsets c <> []).
  { unfold stack_offsets. intro X. apply app_eq_nil in X. destruct X as [X _]. apply map_eq_nil in X. exact (Hne X). }
  destruct (qmin_list_some _ Hst) as [omin Emin]. destruct (qmax_list_some _ Hst) as [omax Emax].
  unfold scroll_speed_with. rewrite Emin, Emax, Hsv. eexists. split; [reflexivity|].
  unfold bpm_frame, drop_duplicates.
  set (B := bfill (ffill (osort (map (fun r : Q * Q => (fst r, Some (snd r))) (c_bpms c) ++ [(omin, None); (omax, None)])))).
  repeat split.
  - intros t s Hin. apply in_map_iff in Hin. destruct Hin as [r [E Hr]]. inversion E; subst t s. clear E.
    apply dedup_go_in in Hr. destruct (filled_rows c omin omax D Hne r Hr) as [b [Eb Hb]].
    exists b, (Qred (b / ref * 1)). split; [exact Hb|]. split; [rewrite Eb; reflexivity|].
    unfold sv_at. rewrite Hsv. apply Q_close_0. symmetry. apply Qred_correct.
  - intros r Hr.
    assert (Hx: In (fst r, Some (snd r)) (map (fun r : Q * Q => (fst r, Some (snd r))) (c_bpms c) ++ [(omin, None); (omax, None)])).
    { apply in_or_app. left. apply in_map_iff. exists r. split; [reflexivity|exact Hr]. }
    destruct (filled_keys c omin omax _ Hx) as [r' [Hr' Ek]]. fold B in Hr'.
    destruct (dedup_go_covers B [] r' Hr') as [y [[Hy|[]] Ey]].
    unfold has_breakpoint. exists (fst y, speed_of ref (snd y) (Some 1)). split.
    + apply in_map_iff. exists y. split; [reflexivity|exact Hy].
    + unfold orow_eq in Ey. apply andb_true_iff in Ey. destruct Ey as [Ey _]. apply Qeq_bool_true in Ey.
      simpl in *. rewrite <- Ek in *. lra.
  - intros r Hr. unfold sv_rows in Hr. rewrite Hsv in Hr. destruct Hr.
Qed.

(* scroll_speed, top level, games without SVs: every chart of the domain (any row order), every override > 0 or none *)
Theorem scroll_speed_spec_nosv c ov :
  wf_chart c = true -> wf_override ov = true -> c_svs c = None -> scroll_spec 0 c ov (scroll_speed c ov).
Proof.
  intros W O Hsv. destruct (reference_ok c ov W O) as [ref [E [R _]]].
  destruct (scroll_speed_with_nosv c ref W Hsv) as [o [Eo Ho]].
  unfold scroll_spec, scroll_speed. rewrite E. exists ref, o. split; [exact Eo|]. split; assumption.
Qed.
