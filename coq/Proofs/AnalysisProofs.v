(* Proofs for C19: soundness of the boolean oracles, sv_normalize, dominant_bpm (guarded) and the
   refutations of the unguarded statement. *)
From Coq Require Import ZArith QArith Qabs List Bool Lia Lqa Permutation.
From RV Require Import Base.PyNum Algo.DominantBpm Algo.ScrollSpeed Algo.AnalysisSpec.
Import ListNotations.
Open Scope Q_scope.

(* ------------------------------------------------------------------ small facts *)
Lemma Qeq_bool_true a b : Qeq_bool a b = true <-> a == b.
Proof. split; [apply Qeq_bool_eq | apply Qeq_eq_bool]. Qed.

Lemma q_close_sound tol a b : q_close tol a b = true -> Q_close tol a b.
Proof. unfold q_close, Q_close. apply Qle_bool_iff. Qed.

Lemma Q_close_0 a b : a == b -> Q_close 0 a b.
Proof.
  intro H. unfold Q_close. assert (E: a - b == 0) by lra. rewrite E. rewrite Qabs_pos by lra. lra.
Qed.

(* ------------------------------------------------------------------ A. the boolean oracles are sound *)
Lemma dominantb_sound tol c b : dominantb tol c b = true -> is_dominant tol c b.
Proof.
  unfold dominantb, is_dominant. intro H. apply andb_true_iff in H. destruct H as [H1 H2]. split.
  - apply existsb_exists in H1. destruct H1 as [[o b'] [Hin Hb]]. exists o, b'. split; [exact Hin|].
    apply Qeq_bool_true. exact Hb.
  - intros o b' Hin. rewrite forallb_forall in H2. specialize (H2 (o, b') Hin). apply Qle_bool_iff in H2. exact H2.
Qed.

Lemma references_sound tol c ov ref : In ref (references tol c ov) -> is_reference tol c ov ref.
Proof.
  unfold references, is_reference. destruct ov as [o|].
  - intros [H|[]]. symmetry. exact H.
  - intro H. apply filter_In in H. apply dominantb_sound. apply H.
Qed.

Theorem dominant_specb_sound tol c out : dominant_specb tol c out = true -> dominant_spec tol c out.
Proof.
  unfold dominant_specb, dominant_spec. destruct out as [b|]; [|discriminate].
  intro H. exists b. split; [reflexivity|]. apply dominantb_sound. exact H.
Qed.

Lemma speed_okb_sound tol c ref t s : speed_okb tol c ref t s = true -> speed_ok tol c ref t s.
Proof.
  unfold speed_okb, speed_ok. destruct (bpm_at c t) as [b|]; [|discriminate]. destruct s as [v|]; [|discriminate].
  intro H. exists b, v. repeat split. apply q_close_sound. exact H.
Qed.

Lemma has_breakpointb_sound out t : has_breakpointb out t = true -> has_breakpoint out t.
Proof.
  unfold has_breakpointb, has_breakpoint. intro H. apply existsb_exists in H. destruct H as [r [Hin Hr]].
  exists r. split; [exact Hin|]. apply Qeq_bool_true. exact Hr.
Qed.

Lemma scroll_okb_sound tol c ref out : scroll_okb tol c ref out = true -> scroll_ok tol c ref out.
Proof.
  unfold scroll_okb, scroll_ok. intro H. apply andb_true_iff in H. destruct H as [H H3].
  apply andb_true_iff in H. destruct H as [H1 H2]. rewrite forallb_forall in H1, H2, H3. repeat split.
  - intros t s Hin. apply speed_okb_sound. exact (H1 (t, s) Hin).
  - intros r Hin. apply has_breakpointb_sound. exact (H2 r Hin).
  - intros r Hin. apply has_breakpointb_sound. exact (H3 r Hin).
Qed.

Theorem scroll_specb_sound tol c ov out : scroll_specb tol c ov out = true -> scroll_spec tol c ov out.
Proof.
  unfold scroll_specb, scroll_spec. destruct out as [o|]; [|discriminate]. intro H.
  apply existsb_exists in H. destruct H as [ref [Hin Hok]]. exists ref, o. split; [reflexivity|]. split.
  - apply references_sound. exact Hin.
  - apply scroll_okb_sound. exact Hok.
Qed.

Lemma extract_perm {A} (p : A -> bool) l x r : extract p l = Some (x, r) -> Permutation l (x :: r) /\ p x = true.
Proof.
  revert x r. induction l as [|y l IH]; intros x r H; simpl in H; [discriminate|].
  destruct (p y) eqn:E.
  - inversion H; subst. split; [apply Permutation_refl|exact E].
  - destruct (extract p l) as [[z r']|] eqn:E2; [|discriminate]. inversion H; subst.
    destruct (IH x r' eq_refl) as [P Q]. split; [|exact Q].
    apply perm_trans with (y :: x :: r'); [apply perm_skip; exact P|apply perm_swap].
Qed.

Lemma match_up_sound {A B} (p : A -> B -> bool) rows out :
  match_up p rows out = true -> exists out', Permutation out out' /\ Forall2 (fun a b => p a b = true) rows out'.
Proof.
  revert out. induction rows as [|r rows IH]; intros out H; simpl in H.
  - destruct out; [|discriminate]. exists []. split; [apply Permutation_refl|constructor].
  - destruct (extract (p r) out) as [[x out1]|] eqn:E; [|discriminate].
    destruct (extract_perm _ _ _ _ E) as [P Q]. destruct (IH out1 H) as [out' [P' F]].
    exists (x :: out'). split.
    + apply perm_trans with (x :: out1); [exact P|apply perm_skip; exact P'].
    + constructor; assumption.
Qed.

Lemma norm_okb_sound tol c ref out : norm_okb tol c ref out = true -> norm_ok tol c ref out.
Proof.
  unfold norm_okb, norm_ok. intro H. destruct (match_up_sound _ _ _ H) as [out' [P F]].
  exists out'. split; [exact P|]. clear P H. induction F as [|row sv rows svs Hp F IH]; constructor; [|exact IH].
  unfold norm_row_okb in Hp. apply andb_true_iff in Hp. destruct Hp as [H1 H2]. split.
  - apply Qeq_bool_true. exact H1.
  - apply q_close_sound. exact H2.
Qed.

Theorem norm_specb_sound tol c ov out : norm_specb tol c ov out = true -> norm_spec tol c ov out.
Proof.
  unfold norm_specb, norm_spec. destruct out as [o|]; [|discriminate]. intro H.
  apply existsb_exists in H. destruct H as [ref [Hin Hok]]. exists ref, o. split; [reflexivity|]. split.
  - apply references_sound. exact Hin.
  - apply norm_okb_sound. exact Hok.
Qed.

(* ------------------------------------------------------------------ B. sv_normalize *)
Theorem sv_normalize_with_spec c ref :
  (forall r, In r (c_bpms c) -> 0 < snd r) -> norm_ok 0 c ref (sv_normalize_with c ref).
Proof.
  intro Hpos. unfold norm_ok, sv_normalize_with. exists (map (fun r => (fst r, Qred (ref / snd r))) (c_bpms c)).
  split; [apply Permutation_refl|]. induction (c_bpms c) as [|r rows IH]; simpl; constructor.
  - unfold norm_row_ok. simpl. split; [reflexivity|]. apply Q_close_0. rewrite (Qred_correct (ref / snd r)).
    assert (P: 0 < snd r) by (apply Hpos; left; reflexivity). field. lra.
  - apply IH. intros x Hx. apply Hpos. right. exact Hx.
Qed.

(* ------------------------------------------------------------------ C. dominant_bpm *)
Ltac unred := repeat match goal with |- context [Qred ?x] => rewrite (Qred_correct x) end.

(* strictly increasing times (every element below all later ones) *)
Fixpoint ssorted (l : list Q) : Prop :=
  match l with [] => True | a :: t => (forall x, In x t -> a < x) /\ ssorted t end.
Fixpoint ssortedb (l : list Q) : bool :=
  match l with [] => true | a :: t => forallb (Qlt_bool a) t && ssortedb t end.
Lemma ssortedb_sound l : ssortedb l = true -> ssorted l.
Proof.
  induction l as [|a t IH]; simpl; [tauto|]. intro H. apply andb_true_iff in H. destruct H as [H1 H2]. split; [|auto].
  intros x Hx. rewrite forallb_forall in H1. apply Qlt_bool_iff. auto.
Qed.

(* the last timed row of the map is a note: no tempo point and no SV after the last object *)
Definition last_is_noteb (c : chart) : bool :=
  match last_object c with
  | Some hi => forallb (fun t => Qle_bool t hi) (tempo_times c ++ map fst (sv_rows c))
  | None => false
  end.

Lemma ssorted_app_inv pre l : ssorted (pre ++ l) -> ssorted l /\ forall x y, In x pre -> In y l -> x < y.
Proof.
  induction pre as [|a pre IH]; simpl; intro H.
  - split; [exact H|]. intros x y [].
  - destruct H as [H1 H2]. destruct (IH H2) as [S R]. split; [exact S|].
    intros x y [Hx|Hx] Hy; [subst x; apply H1; apply in_or_app; right; exact Hy|eauto].
Qed.

Lemma qmax_list_spec l m : qmax_list l = Some m -> In m l /\ forall x, In x l -> x <= m.
Proof.
  revert m. induction l as [|a l IH]; intros m H; simpl in H; [discriminate|].
  destruct (qmax_list l) as [m'|] eqn:E.
  - destruct (IH m' eq_refl) as [I1 I2]. inversion H; subst m. unfold Qmax'.
    destruct (Qle_bool a m') eqn:E2.
    + apply Qle_bool_iff in E2. split; [right; exact I1|]. intros x [Hx|Hx]; [subst; exact E2|auto].
    + apply Qle_bool_false in E2. split; [left; reflexivity|]. intros x [Hx|Hx]; [subst; lra|]. specialize (I2 x Hx). lra.
  - inversion H; subst. destruct l; [|simpl in E; destruct (qmax_list l); discriminate].
    split; [left; reflexivity|]. intros x [Hx|[]]. subst. lra.
Qed.
Lemma qmax_list_some l : l <> [] -> exists m, qmax_list l = Some m.
Proof. destruct l as [|a l]; [congruence|]. intros _. simpl. destruct (qmax_list l); eauto. Qed.

Lemma list_max_spec l m : list_max l = Some m -> In m l /\ forall x, In x l -> x <= m.
Proof.
  revert m. induction l as [|a l IH]; intros m H; simpl in H; [discriminate|].
  destruct (list_max l) as [m'|] eqn:E.
  - destruct (IH m' eq_refl) as [I1 I2]. inversion H; subst m.
    destruct (Qle_bool m' a) eqn:E2.
    + apply Qle_bool_iff in E2. split; [left; reflexivity|]. intros x [Hx|Hx]; [subst; lra|]. specialize (I2 x Hx). lra.
    + apply Qle_bool_false in E2. split; [right; exact I1|]. intros x [Hx|Hx]; [subst; lra|auto].
  - inversion H; subst. destruct l; [|simpl in E; destruct (list_max l); discriminate].
    split; [left; reflexivity|]. intros x [Hx|[]]. subst. lra.
Qed.
Lemma list_min_spec l m : list_min l = Some m -> In m l /\ forall x, In x l -> m <= x.
Proof.
  revert m. induction l as [|a l IH]; intros m H; simpl in H; [discriminate|].
  destruct (list_min l) as [m'|] eqn:E.
  - destruct (IH m' eq_refl) as [I1 I2]. inversion H; subst m.
    destruct (Qle_bool a m') eqn:E2.
    + apply Qle_bool_iff in E2. split; [left; reflexivity|]. intros x [Hx|Hx]; [subst; lra|]. specialize (I2 x Hx). lra.
    + apply Qle_bool_false in E2. split; [right; exact I1|]. intros x [Hx|Hx]; [subst; lra|auto].
  - inversion H; subst. destruct l; [|simpl in E; destruct (list_min l); discriminate].
    split; [left; reflexivity|]. intros x [Hx|[]]. subst. lra.
Qed.
Lemma list_max_some l : l <> [] -> exists m, list_max l = Some m.
Proof. destruct l as [|a l]; [congruence|]. intros _. simpl. destruct (list_max l); eauto. Qed.

(* an already sorted Series is left alone by sort_values *)
Fixpoint sorted_le (l : list Q) : Prop :=
  match l with a :: ((b :: _) as t) => a <= b /\ sorted_le t | _ => True end.
Lemma qsort_sorted_id l : sorted_le l -> qsort l = l.
Proof.
  induction l as [|a l IH]; [reflexivity|]. intro H. simpl qsort.
  destruct l as [|b t]; [reflexivity|]. destruct H as [H1 H2]. rewrite (IH H2). simpl.
  apply Qle_bool_iff in H1. rewrite H1. reflexivity.
Qed.
Lemma ssorted_app_last l last : ssorted l -> (forall x, In x l -> x <= last) -> sorted_le (l ++ [last]).
Proof.
  induction l as [|a l IH]; intros S B; [simpl; exact I|].
  destruct S as [S1 S2]. destruct l as [|b t].
  - simpl. split; [apply B; left; reflexivity|exact I].
  - change (a <= b /\ sorted_le ((b :: t) ++ [last])). split.
    + apply Qlt_le_weak. apply S1. left. reflexivity.
    + apply IH; [exact S2|]. intros x Hx. apply B. right. exact Hx.
Qed.

Lemma diffs_length l x : length (diffs (l ++ [x])) = length l.
Proof.
  induction l as [|a l IH]; [reflexivity|]. destruct l as [|b t]; [reflexivity|].
  change (S (length (diffs ((b :: t) ++ [x]))) = S (length (b :: t))). rewrite IH. reflexivity.
Qed.

Lemma map_fst_combine {A B} (a : list A) (b : list B) : length a = length b -> map fst (combine a b) = a.
Proof.
  revert b. induction a as [|x a IH]; intros [|y b] H; simpl in *; try reflexivity; try discriminate.
  rewrite IH; [reflexivity|lia].
Qed.

Lemma filter_none {A} (f : A -> bool) l : (forall x, In x l -> f x = false) -> filter f l = [].
Proof. induction l as [|a l IH]; simpl; intro H; [reflexivity|]. rewrite (H a) by (left; reflexivity). apply IH. intros; apply H; right; assumption. Qed.
Lemma filter_all {A} (f : A -> bool) l : (forall x, In x l -> f x = true) -> filter f l = l.
Proof. induction l as [|a l IH]; simpl; intro H; [reflexivity|]. rewrite (H a) by (left; reflexivity). rewrite IH; [reflexivity|]. intros; apply H; right; assumption. Qed.

Lemma list_min_ssorted a l : ssorted (a :: l) -> list_min (a :: l) = Some a.
Proof.
  intros [H _]. simpl. destruct (list_min l) as [m|] eqn:E; [|reflexivity].
  destruct (list_min_spec _ _ E) as [I _]. specialize (H m I).
  assert (L: Qle_bool a m = true) by (apply Qle_bool_iff; lra). rewrite L. reflexivity.
Qed.

Lemma next_tempo_sorted c pre o b rows :
  c_bpms c = pre ++ (o, b) :: rows -> ssorted (tempo_times c) ->
  next_tempo c o = match rows with [] => None | r :: _ => Some (fst r) end.
Proof.
  intros E S. unfold next_tempo, tempo_times in *. rewrite E in *. rewrite map_app in *. simpl map in *.
  destruct (ssorted_app_inv _ _ S) as [S2 R]. rewrite filter_app.
  rewrite filter_none.
  2:{ intros x Hx. apply Qlt_bool_false. apply Qlt_le_weak. apply R; [exact Hx|left; reflexivity]. }
  simpl. assert (F: Qlt_bool o o = false) by (apply Qlt_bool_false; lra). rewrite F.
  destruct S2 as [S3 S4]. rewrite filter_all.
  2:{ intros x Hx. apply Qlt_bool_iff. apply S3. exact Hx. }
  destruct rows as [|r rows']; [reflexivity|]. simpl map. apply list_min_ssorted. exact S4.
Qed.

Lemma clip_id lo hi x : lo <= x -> x <= hi -> clip lo hi x == x.
Proof.
  intros H1 H2. unfold clip, Qmin', Qmax'.
  destruct (Qle_bool x lo) eqn:E1.
  - apply Qle_bool_iff in E1. destruct (Qle_bool lo hi) eqn:E2; [lra|]. apply Qle_bool_false in E2. lra.
  - destruct (Qle_bool x hi) eqn:E2; [lra|]. apply Qle_bool_false in E2. lra.
Qed.

Lemma segment_val c lo hi o e :
  lo <= o -> o <= e -> e <= hi ->
  next_tempo c o = Some e \/ (next_tempo c o = None /\ e == hi) ->
  segment_time c lo hi o == e - o.
Proof.
  intros H1 H2 H3 H. unfold segment_time.
  assert (Co: clip lo hi o == o) by (apply clip_id; lra).
  destruct H as [H|[H He]]; rewrite H.
  - assert (Ce: clip lo hi e == e) by (apply clip_id; lra).
    destruct (Qlt_bool (clip lo hi o) (clip lo hi e)) eqn:E.
    + lra.
    + apply Qlt_bool_false in E. lra.
  - destruct (Qlt_bool (clip lo hi o) hi) eqn:E.
    + lra.
    + apply Qlt_bool_false in E. lra.
Qed.

Lemma Qeq_bool_congr b k k' : k == k' -> Qeq_bool b k = Qeq_bool b k'.
Proof.
  intro H. destruct (Qeq_bool b k) eqn:E1, (Qeq_bool b k') eqn:E2; try reflexivity.
  - apply Qeq_bool_true in E1. assert (X: b == k') by lra. apply Qeq_bool_true in X. congruence.
  - apply Qeq_bool_true in E2. assert (X: b == k) by lra. apply Qeq_bool_true in X. congruence.
Qed.
Lemma group_sum_congr k k' rows : k == k' -> group_sum k rows = group_sum k' rows.
Proof.
  intro H. induction rows as [|[b d] rows IH]; simpl; [reflexivity|].
  rewrite (Qeq_bool_congr b k k' H), IH. reflexivity.
Qed.
Lemma sum_where_congr k k' f rows : k == k' -> sum_where k f rows = sum_where k' f rows.
Proof.
  intro H. induction rows as [|[o b] rows IH]; simpl; [reflexivity|].
  rewrite (Qeq_bool_congr b k k' H), IH. reflexivity.
Qed.

Lemma sum_where_cons k f o b R :
  sum_where k f ((o, b) :: R) = if Qeq_bool b k then Qred (f o + sum_where k f R) else sum_where k f R.
Proof. reflexivity. Qed.
Lemma group_sum_cons k b d R :
  group_sum k ((b, d) :: R) = if Qeq_bool b k then Qred (d + group_sum k R) else group_sum k R.
Proof. reflexivity. Qed.

Section Dominant.
  Variables (c : chart) (lo hi last k : Q).
  Hypothesis S : ssorted (tempo_times c).
  Hypothesis Blo : forall t, In t (tempo_times c) -> lo <= t.
  Hypothesis Bhi : forall t, In t (tempo_times c) -> t <= hi.
  Hypothesis Elast : last == hi.

  (* the model's labelled intervals, summed per label, are the specification's active times *)
  Lemma group_sum_active rows : forall pre, c_bpms c = pre ++ rows ->
    group_sum k (combine (map snd rows) (diffs (map fst rows ++ [last])))
    == sum_where k (segment_time c lo hi) rows.
  Proof.
    induction rows as [|[o b] rows IH]; intros pre E; [simpl; lra|].
    assert (Ho: In o (tempo_times c)).
    { unfold tempo_times. rewrite E, map_app. apply in_or_app. right. left. reflexivity. }
    pose proof (next_tempo_sorted c pre o b rows E S) as N.
    destruct rows as [|[o' b'] rows'].
    - cbn [map app diffs combine group_sum sum_where snd fst].
      assert (V: segment_time c lo hi o == hi - o).
      { apply segment_val; [apply Blo; exact Ho|apply Bhi; exact Ho|lra|]. right. split; [exact N|lra]. }
      destruct (Qeq_bool b k); [|lra]. unred. rewrite V. lra.
    - assert (Ho': In o' (tempo_times c)).
      { unfold tempo_times. rewrite E, map_app. apply in_or_app. right. right. left. reflexivity. }
      assert (Lt: o < o').
      { unfold tempo_times in S. rewrite E, map_app in S. destruct (ssorted_app_inv _ _ S) as [[S1 _] _].
        apply S1. left. reflexivity. }
      assert (V: segment_time c lo hi o == o' - o).
      { apply segment_val; [apply Blo; exact Ho|lra|apply Bhi; exact Ho'|]. left. exact N. }
      specialize (IH (pre ++ [(o, b)])). rewrite <- app_assoc in IH. specialize (IH E).
      change (group_sum k ((b, Qred (o' - o)) :: combine (map snd ((o', b') :: rows')) (diffs (map fst ((o', b') :: rows') ++ [last])))
              == sum_where k (segment_time c lo hi) ((o, b) :: (o', b') :: rows')).
      rewrite (sum_where_cons k (segment_time c lo hi) o b ((o', b') :: rows')), group_sum_cons.
      destruct (Qeq_bool b k).
      + unred. rewrite IH, V. lra.
      + exact IH.
  Qed.
End Dominant.

Lemma idxmax_go_spec best l :
  In (idxmax_go best l) (best :: l) /\ forall x, In x (best :: l) -> snd x <= snd (idxmax_go best l).
Proof.
  revert best. induction l as [|y l IH]; intro best; simpl idxmax_go.
  - split; [left; reflexivity|]. intros x [Hx|[]]. subst. lra.
  - destruct (Qlt_bool (snd best) (snd y)) eqn:E.
    + apply Qlt_bool_iff in E. destruct (IH y) as [I1 I2]. split.
      * right. exact I1.
      * intros x [Hx|Hx]; [subst x|exact (I2 x Hx)]. specialize (I2 y (or_introl eq_refl)). lra.
    + apply Qlt_bool_false in E. destruct (IH best) as [I1 I2]. split.
      * destruct I1 as [I1|I1]; [left; exact I1|right; right; exact I1].
      * intros x [Hx|[Hx|Hx]]; [subst x; apply I2; left; reflexivity| |apply I2; right; exact Hx].
        subst x. specialize (I2 best (or_introl eq_refl)). lra.
Qed.
Lemma idxmax_spec l : l <> [] ->
  exists kv, idxmax l = Some (fst kv) /\ In kv l /\ forall x, In x l -> snd x <= snd kv.
Proof.
  destruct l as [|x l]; [congruence|]. intros _. exists (idxmax_go x l). simpl.
  destruct (idxmax_go_spec x l) as [I1 I2]. split; [reflexivity|]. split; assumption.
Qed.

Lemma qinsert_in x y l : In x (qinsert y l) <-> x = y \/ In x l.
Proof.
  induction l as [|a l IH]; simpl; [intuition|]. destruct (Qle_bool y a); simpl; [intuition|].
  rewrite IH. intuition.
Qed.
Lemma qsort_in x l : In x (qsort l) <-> In x l.
Proof. induction l as [|a l IH]; simpl; [tauto|]. rewrite qinsert_in, IH. intuition. Qed.
Lemma qdedup_in x l : In x (qdedup_sorted l) -> In x l.
Proof.
  induction l as [|a l IH]; [tauto|]. destruct l as [|b t]; [tauto|].
  change (In x (if Qeq_bool a b then qdedup_sorted (b :: t) else a :: qdedup_sorted (b :: t)) -> In x (a :: b :: t)).
  destruct (Qeq_bool a b); [intro H; right; auto|]. intros [H|H]; [left; exact H|right; auto].
Qed.
Lemma qdedup_covers x l : In x l -> exists k, In k (qdedup_sorted l) /\ k == x.
Proof.
  revert x. induction l as [|a l IH]; intro x; [intros []|]. destruct l as [|b t].
  - intros [H|[]]. subst. exists x. split; [left; reflexivity|reflexivity].
  - change (In x (a :: b :: t) -> exists k, In k (if Qeq_bool a b then qdedup_sorted (b :: t) else a :: qdedup_sorted (b :: t)) /\ k == x).
    destruct (Qeq_bool a b) eqn:E.
    + apply Qeq_bool_true in E. intros [H|H].
      * subst x. destruct (IH b (or_introl eq_refl)) as [k [K1 K2]]. exists k. split; [exact K1|lra].
      * exact (IH x H).
    + intros [H|H].
      * subst x. exists a. split; [left; reflexivity|reflexivity].
      * destruct (IH x H) as [k [K1 K2]]. exists k. split; [right; exact K1|exact K2].
Qed.
Lemma group_keys_in k rows : In k (group_keys rows) -> In k (map fst rows).
Proof. unfold group_keys. intro H. apply qdedup_in in H. exact (proj1 (qsort_in _ _) H). Qed.
Lemma group_keys_covers x rows : In x (map fst rows) -> exists k, In k (group_keys rows) /\ k == x.
Proof. unfold group_keys. intro H. apply qdedup_covers. exact (proj2 (qsort_in _ _) H). Qed.

(* For every chart of the property's domain whose tempo rows are in time order and whose last timed row is a
   note, dominant_bpm returns a bpm value of the chart whose active time is maximal. *)
Theorem dominant_is_argmax c :
  wf_chart c = true -> ssortedb (tempo_times c) = true -> last_is_noteb c = true ->
  dominant_spec 0 c (dominant_bpm c).
Proof.
  intros W Sb L. apply ssortedb_sound in Sb.
  unfold wf_chart in W. destruct (first_tempo c) as [lo|] eqn:Eft; [|discriminate].
  destruct (first_object c) as [fo|] eqn:Efo; [|discriminate].
  unfold last_is_noteb in L. destruct (last_object c) as [hi|] eqn:Elo; [|discriminate].
  rewrite forallb_forall in L.
  destruct (list_min_spec _ _ Eft) as [Ilo Blo]. destruct (list_max_spec _ _ Elo) as [Ihi Bhi'].
  assert (Bhi: forall t, In t (tempo_times c) -> t <= hi).
  { intros t Ht. apply Qle_bool_iff. apply L. apply in_or_app. left. exact Ht. }
  (* the stack maximum is the last object *)
  assert (Hst: stack_offsets c <> []).
  { unfold stack_offsets. intro X. apply app_eq_nil in X. destruct X as [X _]. fold (tempo_times c) in X. rewrite X in Ilo. destruct Ilo. }
  destruct (qmax_list_some _ Hst) as [last El]. destruct (qmax_list_spec _ _ El) as [Il Bl].
  assert (Elast: last == hi).
  { assert (A: last <= hi).
    { unfold stack_offsets in Il. rewrite app_assoc in Il. apply in_app_or in Il. destruct Il as [Il|Il].
      - apply Qle_bool_iff. apply L. exact Il.
      - apply Bhi'. exact Il. }
    assert (B: hi <= last).
    { apply Bl. unfold stack_offsets. apply in_or_app. right. apply in_or_app. right. exact Ihi. }
    lra. }
  (* the interval Series *)
  assert (Hrows: dominant_intervals c = Some (combine (map snd (c_bpms c)) (diffs (tempo_times c ++ [last])))).
  { unfold dominant_intervals. rewrite El. fold (tempo_times c). rewrite qsort_sorted_id.
    - rewrite diffs_length. unfold tempo_times. rewrite map_length, Nat.eqb_refl. reflexivity.
    - apply ssorted_app_last; [exact Sb|]. intros x Hx. specialize (Bhi x Hx). lra. }
  set (rows := combine (map snd (c_bpms c)) (diffs (tempo_times c ++ [last]))) in *.
  assert (Hsum: forall k, group_sum k rows == active_time c k).
  { intro k. unfold active_time. rewrite Eft, Elo. unfold rows, tempo_times.
    apply (group_sum_active c lo hi last k Sb Blo Bhi Elast (c_bpms c) []). reflexivity. }
  assert (Hfst: map fst rows = map snd (c_bpms c)).
  { unfold rows. apply map_fst_combine. rewrite diffs_length. unfold tempo_times. rewrite !map_length. reflexivity. }
  assert (Hne: groupby_sum rows <> []).
  { unfold groupby_sum. destruct (c_bpms c) as [|[o b] l] eqn:Eb; [unfold tempo_times in Ilo; rewrite Eb in Ilo; destruct Ilo|].
    assert (X: In b (map fst rows)) by (rewrite Hfst; left; reflexivity).
    destruct (group_keys_covers _ _ X) as [k [K _]]. intro Y. apply map_eq_nil in Y. rewrite Y in K. destruct K. }
  destruct (idxmax_spec _ Hne) as [[k v] [Eid [Hin Hmax]]]. simpl fst in Eid. simpl snd in Hmax.
  unfold dominant_spec. exists k. split.
  { unfold dominant_bpm, dominant_groups. rewrite Hrows. exact Eid. }
  unfold groupby_sum in Hin. apply in_map_iff in Hin. destruct Hin as [k0 [Ek Hk]]. inversion Ek; subst k0 v. clear Ek.
  split.
  - apply group_keys_in in Hk. rewrite Hfst in Hk. apply in_map_iff in Hk. destruct Hk as [[o b'] [E1 E2]].
    exists o, b'. split; [exact E2|]. simpl in E1. subst. reflexivity.
  - intros o b' Hin.
    assert (X: In b' (map fst rows)) by (rewrite Hfst; apply in_map_iff; exists (o, b'); split; [reflexivity|exact Hin]).
    destruct (group_keys_covers _ _ X) as [k' [K1 K2]].
    assert (M: group_sum k' rows <= group_sum k rows).
    { apply (Hmax (k', group_sum k' rows)). unfold groupby_sum. apply in_map_iff. exists k'. split; [reflexivity|exact K1]. }
    rewrite (group_sum_congr k' b' rows K2) in M. rewrite (Hsum b'), (Hsum k) in M. lra.
Qed.

(* the dominant-bpm oracle is also complete, so [false] really is a counter-example *)
Lemma dominantb_complete tol c b : is_dominant tol c b -> dominantb tol c b = true.
Proof.
  intros [[o [b' [Hin Hb]]] H]. unfold dominantb. apply andb_true_iff. split.
  - apply existsb_exists. exists (o, b'). split; [exact Hin|]. apply Qeq_bool_true. exact Hb.
  - apply forallb_forall. intros [o1 b1] H1. apply Qle_bool_iff. exact (H o1 b1 H1).
Qed.
Theorem dominant_specb_complete tol c out : dominant_spec tol c out -> dominant_specb tol c out = true.
Proof. intros [b [E H]]. subst out. apply dominantb_complete. exact H. Qed.

(* ------------------------------------------------------------------ refutations of the unguarded statement *)
Definition witness_unsorted := mkChart [(1000, 240); (0, 120)] None [0; 3000].
Definition witness_tempo_after_last := mkChart [(0, 120); (1000, 240); (10000, 60)] None [0; 1500].
Definition witness_sv_after_last := mkChart [(0, 120); (1000, 240)] (Some [(9000, 2)]) [0; 1500].

Lemma refute_by_oracle c : dominant_specb 0 c (dominant_bpm c) = false -> ~ dominant_spec 0 c (dominant_bpm c).
Proof. intros H X. apply dominant_specb_complete in X. congruence. Qed.

(* tempo rows out of time order: the positional set_axis credits intervals to the wrong bpm (returns 120; 240 is active for 2000 of 3000 ms) *)
Theorem dominant_is_argmax_refuted_unsorted :
  exists c, wf_chart c = true /\ last_is_noteb c = true /\ ssortedb (tempo_times c) = false
            /\ dominant_bpm c = Some 120 /\ ~ dominant_spec 0 c (dominant_bpm c).
Proof. exists witness_unsorted. do 4 (split; [vm_compute; reflexivity|]). apply refute_by_oracle. vm_compute. reflexivity. Qed.

(* a tempo point after the last object: 9000 ms are credited to 240 although only 500 ms of it lie before the last object *)
Theorem dominant_is_argmax_refuted_tempo_after_last :
  exists c, wf_chart c = true /\ ssortedb (tempo_times c) = true /\ last_is_noteb c = false
            /\ dominant_bpm c = Some 240 /\ ~ dominant_spec 0 c (dominant_bpm c).
Proof. exists witness_tempo_after_last. do 4 (split; [vm_compute; reflexivity|]). apply refute_by_oracle. vm_compute. reflexivity. Qed.

(* an SV after the last object extends the last tempo segment the same way (games with SVs) *)
Theorem dominant_is_argmax_refuted_sv_after_last :
  exists c, wf_chart c = true /\ ssortedb (tempo_times c) = true /\ last_is_noteb c = false
            /\ dominant_bpm c = Some 240 /\ ~ dominant_spec 0 c (dominant_bpm c).
Proof. exists witness_sv_after_last. do 4 (split; [vm_compute; reflexivity|]). apply refute_by_oracle. vm_compute. reflexivity. Qed.

(* scroll_speed / sv_normalize inherit the wrong reference (oracle level: the proven-sound oracle rejects the model's
   output on the same witnesses; completeness of these two oracles is not proved) *)
Theorem inherited_reference_refuted_oracle :
  forallb (fun c => wf_chart c && negb (scroll_specb 0 c None (scroll_speed c None)))
          [witness_unsorted; witness_tempo_after_last; witness_sv_after_last] = true
  /\ norm_specb 0 witness_sv_after_last None (sv_normalize witness_sv_after_last None) = false.
Proof. split; vm_compute; reflexivity. Qed.

(* ------------------------------------------------------------------ the reference bpm *)
(* with an override nothing is asked of the rows; without one, the guard of dominant_is_argmax *)
Definition ref_guard (c : chart) (ov : option Q) : bool :=
  match ov with Some _ => true | None => ssortedb (tempo_times c) && last_is_noteb c end.

Lemma reference_ok c ov :
  wf_chart c = true -> wf_override ov = true -> ref_guard c ov = true ->
  exists ref, reference_bpm c ov = Some ref /\ is_reference 0 c ov ref.
Proof.
  intros W O G. unfold reference_bpm, is_reference. destruct ov as [o|].
  - simpl in O. apply Qlt_bool_iff in O. exists o. split; [|reflexivity].
    destruct (Qeq_bool o 0) eqn:E; [|reflexivity]. apply Qeq_bool_true in E. lra.
  - simpl in G. apply andb_true_iff in G. destruct G as [G1 G2].
    destruct (dominant_is_argmax c W G1 G2) as [b [E D]]. exists b. split; assumption.
Qed.

Lemma wf_chart_pos c : wf_chart c = true -> forall r, In r (c_bpms c) -> 0 < snd r.
Proof.
  unfold wf_chart. destruct (first_tempo c); [|discriminate]. destruct (first_object c); [|discriminate].
  intro H. apply andb_true_iff in H. destruct H as [_ H]. rewrite forallb_forall in H.
  intros r Hr. apply Qlt_bool_iff. exact (H r Hr).
Qed.

(* SV normalisation: for every osu/Quaver chart of the domain and every override > 0 (or, without override, under
   the guard of dominant_is_argmax) exactly one SV per tempo point, at its time, multiplier * bpm = reference *)
Theorem sv_normalize_spec c ov :
  wf_chart c = true -> wf_override ov = true -> ref_guard c ov = true -> c_svs c <> None ->
  norm_spec 0 c ov (sv_normalize c ov).
Proof.
  intros W O G Sv. destruct (reference_ok c ov W O G) as [ref [E R]].
  unfold norm_spec, sv_normalize. rewrite E. destruct (c_svs c) as [svs|]; [|congruence].
  exists ref, (sv_normalize_with c ref). split; [reflexivity|]. split; [exact R|].
  apply sv_normalize_with_spec. apply wf_chart_pos. exact W.
Qed.

(* ------------------------------------------------------------------ D. scroll_speed: small-scope result (PARTIAL)
   FULL STATEMENT (not proved for all inputs):
     forall c ref, wf_chart c = true -> 0 < ref ->
       exists o, scroll_speed_with c ref = Some o /\ scroll_ok 0 c ref o.
   What is proved: the statement for EVERY chart of the small scope below (all row orders of <= 3 tempo rows on
   times {0,1,2} with bpms {1,2}; no SV list, or all sequences of <= 2 SV rows on times {-1..3} with multipliers
   {2, 1/2} -- so SVs before the first tempo point, at tempo points, coinciding with each other, after the last
   note; four note sets), reference 3, by evaluation of the proven-sound oracle on the model's output.
   Missing: the induction over sort/ffill/bfill/groupby-last/merge for arbitrary charts.  Beyond the small scope
   the statement rests on the correspondence run + oracle on the implementation's outputs. *)
Fixpoint seqs_upto {A} (opts : list A) (n : nat) : list (list A) :=
  match n with
  | O => [[]]
  | S n' => [] :: flat_map (fun x => map (cons x) (seqs_upto opts n')) opts
  end.
Definition pairs (ts vs : list Q) : list (Q * Q) := flat_map (fun t => map (fun v => (t, v)) vs) ts.
Definition small_tempos : list (list (Q * Q)) := seqs_upto (pairs [0; 1; 2] [1; 2]) 3.
Definition small_svs : list (option (list (Q * Q))) :=
  None :: map Some (seqs_upto (pairs [-1; 0; 1; 2; 3] [2; 1 # 2]) 2).
Definition small_notes : list (list Q) := [[0]; [2]; [3; 1]; [1]].
Definition forall_small (p : chart -> bool) : bool :=
  forallb (fun b => forallb (fun s => forallb (fun n => p (mkChart b s n)) small_notes) small_svs) small_tempos.
Definition scroll_check (ref : Q) (c : chart) : bool :=
  negb (wf_chart c) || match scroll_speed_with c ref with Some o => scroll_okb 0 c ref o | None => false end.

Lemma scroll_small_scope_computed : forall_small (scroll_check 3) = true.
Proof. vm_compute. reflexivity. Qed.

Lemma forall_small_elim p : forall_small p = true ->
  forall b s n, In b small_tempos -> In s small_svs -> In n small_notes -> p (mkChart b s n) = true.
Proof.
  unfold forall_small. intros H b s n Hb Hs Hn.
  rewrite forallb_forall in H. specialize (H b Hb). rewrite forallb_forall in H. specialize (H s Hs).
  rewrite forallb_forall in H. exact (H n Hn).
Qed.

Theorem scroll_speed_spec_partial b s n :
  In b small_tempos -> In s small_svs -> In n small_notes -> wf_chart (mkChart b s n) = true ->
  exists o, scroll_speed_with (mkChart b s n) 3 = Some o /\ scroll_ok 0 (mkChart b s n) 3 o.
Proof.
  intros Hb Hs Hn W.
  pose proof (forall_small_elim (scroll_check 3) scroll_small_scope_computed b s n Hb Hs Hn) as H.
  unfold scroll_check in H. apply orb_true_iff in H. destruct H as [H|H].
  - apply negb_true_iff in H. congruence.
  - destruct (scroll_speed_with (mkChart b s n) 3) as [o|]; [|discriminate].
    exists o. split; [reflexivity|]. apply scroll_okb_sound. exact H.
Qed.
