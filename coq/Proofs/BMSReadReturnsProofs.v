(* C04: when BMSMap.read returns, and the initial tempo.  On the text-level domain every step of _read_notes succeeds
   except possibly TimingMap.reseat() (C11): the read returns exactly when reseat returns, and its tempo list is reseat's
   (bms_read_returns).  Under C11's guard on the text's tempo script (reseat_textb) the read returns and its tempo list
   starts at 0 ms with the initial tempo the text denotes (bms_read_initial_tempo). *)
From Coq Require Import ZArith QArith Qround Qabs List Bool Lia Lqa Sorting.Permutation.
From RV Require Import Base.PyNum Timing.Snapper Timing.Snap Timing.TimingMap Timing.Reseat Timing.ReseatSpec Timing.ReseatDomain
  Timing.Integrate Timing.Domain Formats.BMSText Formats.BMS Formats.BMSSpec Proofs.SnapperProofs Proofs.TimingProofs
  Proofs.RederiveProofs Proofs.TimingProofs2 Proofs.ReseatProofs Proofs.BMSProofs Proofs.BMSDenoteProofs Proofs.BMSParseProofs.
Import ListNotations.
Open Scope Z_scope.

Section Returns.
  Variable tbl : list Q.
  Hypothesis Hok : table_ok (1 # 96) tbl = true.

  (* _read_notes after the line loop: everything but reseat succeeds on the theorem's domain *)
  Lemma notes_of_state_returns (lay : layout) (mk : Z) (meta : bms_meta) (st : rstate) (sobjs : list sobj) (tempos : list bcs)
        (Hs : list (Z * sobj)) (Ls : list (Z * (sobj * sobj))) :
    let script := script_of (m_bpm meta) tempos in
    r_bcs st = rev tempos ++ [origin_bcs (m_bpm meta)] ->
    r_objs st = rev (lane_lobjs lay sobjs) ->
    forallb nonneg_snap tempos = true -> origin_tempo_first tempos = true ->
    lanes_denote (m_lnobj meta) lay sobjs (map Z.of_nat (seq 0 (Z.to_nat mk))) = Some (Hs, Ls) ->
    domainb tbl script (map (fun co => qsnap (snd co)) Hs) = true ->
    domainb tbl script (map (fun cl => qsnap (fst (snd cl))) Ls) = true ->
    domainb tbl script (map (fun cl => qsnap (snd (snd cl))) Ls) = true ->
    exists tm hs ls, from_bcs 0 script = Some tm
      /\ notes_of_state tbl mk meta st = match tm_reseat tbl tm with Some bp => Some (hs, ls, bp) | None => None end.
  Proof.
    intros script Hb Ho Hn Hf Hd D1 D2 D3.
    destruct (offsets_on_grid_b tbl Hok 0%Q script _ D1) as [tm [o1 [F [T1 _]]]].
    destruct (offsets_on_grid_b tbl Hok 0%Q script _ D2) as [tm2 [o2 [F2 [T2 _]]]].
    destruct (offsets_on_grid_b tbl Hok 0%Q script _ D3) as [tm3 [o3 [F3 [T3 _]]]].
    rewrite F in F2, F3. inversion F2; subst tm2. inversion F3; subst tm3.
    unfold notes_of_state. rewrite Hb, rev_app_distr, rev_involutive. cbn [rev app].
    fold (reader_script (m_bpm meta) tempos). rewrite (reader_script_is_script _ _ Hn Hf). fold script. rewrite F.
    rewrite Ho, rev_involutive. rewrite (pair_lanes_refines _ (m_samples meta) _ _ _ _ _ Hd).
    rewrite !map_map in *.
    assert (E1 : map (fun x => hp_snap (hitp_of' (m_samples meta) x)) Hs = map (fun co => qsnap (snd co)) Hs) by reflexivity.
    assert (E2 : map (fun x => hp_snap (lp_hit (holdp_of' (m_samples meta) x))) Ls = map (fun cl => qsnap (fst (snd cl))) Ls) by reflexivity.
    assert (E3 : map (fun x => lp_tail (holdp_of' (m_samples meta) x)) Ls = map (fun cl => qsnap (snd (snd cl))) Ls) by reflexivity.
    rewrite E1, E2, E3, T1, T2, T3.
    exists tm. destruct (map (hitp_of' (m_samples meta)) Hs) as [|x xs]; destruct (map (holdp_of' (m_samples meta)) Ls) as [|y ys];
      eexists _, _; (split; [reflexivity|]); destruct (tm_reseat tbl tm); reflexivity.
  Qed.

  (* whole file: the read returns exactly when TimingMap.reseat() does, and the chart's tempo list is reseat's *)
  Theorem bms_read_returns (lay : layout) (mk : Z) (lines : list text) :
    layout_ok mk lay = true -> text_dom lay lines -> read_guards tbl lines = true ->
    exists bv bpm0 tempos tm,
      hlookup S_BPM (headers_of lines) = Some bv /\ parse_decimal bv = Some bpm0
      /\ tempo_objs (table_of S_BPM (headers_of lines)) (flat_map objs_of_line lines) = Some tempos
      /\ from_bcs 0 (script_of bpm0 tempos) = Some tm
      /\ (forall bp, tm_reseat tbl tm = Some bp -> exists c, bms_read tbl lay mk lines = Some c /\ c_bpms c = bp)
      /\ (tm_reseat tbl tm = None -> bms_read tbl lay mk lines = None).
  Proof.
    intros Lok TD G. pose proof (layout_ok_facts mk lay Lok) as LF.
    pose proof (bms_text_in_domain tbl lay mk lines Lok TD G) as Dom.
    destruct (td_denote lay lines TD) as [d [Hd _]].
    destruct (bms_denote_inv lay lines d Hd) as [bv [bpm0 [tempos [extq [hits [holds [Hb [Hp [Ht [Hq [Hl _]]]]]]]]]]].
    destruct (read_state_wf lay mk lines bv bpm0 tempos extq LF TD Hb Hp Ht Hq) as [meta [st [Rs [Sb [So [Mb _]]]]]].
    unfold read_theorem_domain in Dom. rewrite Rs in Dom. fold (sobjs_of lines) in Dom. rewrite Ht in Dom.
    destruct (lanes_denote (m_lnobj meta) lay (sobjs_of lines) (map Z.of_nat (seq 0 (Z.to_nat mk)))) as [[Hs Ls]|] eqn:LD.
    2:{ rewrite andb_false_r in Dom. discriminate. }
    apply andb_true_iff in Dom. destruct Dom as [Dom D5]. apply andb_true_iff in Dom. destruct Dom as [Dom D4].
    apply andb_true_iff in Dom. destruct Dom as [Dom D3]. apply andb_true_iff in D5. destruct D5 as [D5 D7]. apply andb_true_iff in D5. destruct D5 as [D5 D6].
    rewrite Mb in *.
    destruct (notes_of_state_returns lay mk meta st (sobjs_of lines) tempos Hs Ls) as [tm [hs [ls [F N]]]]; try rewrite Mb; auto.
    rewrite Mb in F.
    exists bv, bpm0, tempos, tm. split; [exact Hb|]. split; [exact Hp|]. split; [exact Ht|]. split; [exact F|].
    rewrite bms_read_via_state, Rs, N. split.
    - intros bp E. rewrite E. eexists. split; reflexivity.
    - intro E. rewrite E. reflexivity.
  Qed.

  (* C11, first pass of the loop: outside the extend windows and with at least one whole measure before the next change,
     the pass keeps the change (SKeep) or inserts a point after it (SIns) -- it does not replace it *)
  Lemma first_step_keeps thr meas bpm met o1 d : (0 <= thr)%Q -> (0 < bpm)%Q -> (0 < met)%Q -> (0 <= meas) ->
    (o1 - 0 == beat_len bpm * d)%Q -> gap_noextb thr met d = true -> 1 <= gap_mq met d ->
    (exists m, stepk thr meas bpm met 0 o1 = SKeep m) \/ (exists c off m, stepk thr meas bpm met 0 o1 = SIns c off m).
  Proof.
    intros Hthr Hbpm Hmet Hmeas Hod Hg Hq.
    pose proof (beat_len_pos _ Hbpm) as Hbl.
    assert (Emd : (q_md bpm met 0 o1 == d / met)%Q) by (unfold q_md, measure_len; rewrite Hod; field; lra).
    assert (Ebd : (q_bd bpm 0 o1 == d)%Q) by (unfold q_bd; rewrite Hod; field; lra).
    assert (Emq : Qfloor (q_md bpm met 0 o1) = gap_mq met d) by (apply Qfloor_comp; exact Emd).
    assert (Ebq : Qfloor (q_bd bpm 0 o1) = Qfloor d) by (apply Qfloor_comp; exact Ebd).
    assert (Emr : (Qred (q_md bpm met 0 o1 - inject_Z (Qfloor (q_md bpm met 0 o1))) == gap_mr met d)%Q).
    { rewrite Qred_correct, Emq, Emd. reflexivity. }
    assert (Ebr : (Qred (q_bd bpm 0 o1 - inject_Z (Qfloor (q_bd bpm 0 o1))) == gap_br d)%Q).
    { rewrite Qred_correct, Ebq, Ebd. reflexivity. }
    unfold gap_noextb in Hg. apply andb_true_iff in Hg. destruct Hg as [G1 G2]. apply negb_true_iff in G1, G2.
    unfold stepk, stepq.
    change (Qlt_bool 0 (Qred (q_md bpm met 0 o1 - inject_Z (Qfloor (q_md bpm met 0 o1)))) && Qle_bool (Qred (q_md bpm met 0 o1 - inject_Z (Qfloor (q_md bpm met 0 o1)))) thr)
      with (in_window thr (Qred (q_md bpm met 0 o1 - inject_Z (Qfloor (q_md bpm met 0 o1))))).
    rewrite (in_window_comp thr _ _ Emr), G1.
    change (Qlt_bool 0 (Qred (q_bd bpm 0 o1 - inject_Z (Qfloor (q_bd bpm 0 o1)))) && Qle_bool (Qred (q_bd bpm 0 o1 - inject_Z (Qfloor (q_bd bpm 0 o1)))) thr)
      with (in_window thr (Qred (q_bd bpm 0 o1 - inject_Z (Qfloor (q_bd bpm 0 o1))))).
    rewrite (in_window_comp thr _ _ Ebr), G2.
    destruct (Qlt_bool thr _); [|left; eexists; reflexivity].
    rewrite Emq. rewrite (snap_norm_seat (meas + gap_mq met d) met ltac:(lia) Hmet).
    assert ((gap_mq met d =? 0) = false) as -> by (apply Z.eqb_neq; lia). right. do 3 eexists. reflexivity.
  Qed.

  (* C11: under no_extend and with no change inside the first measure, the reseated list starts with the first change *)
  Lemma reseat_head_kept l : wf_unseated l = true -> no_extend THRESHOLD l = true -> first_gap_ge1 l = true ->
    exists c rest rs, l = c :: rest /\ reseat l = ROk (c :: rs).
  Proof.
    intros H Hn Hg1. pose proof (no_extend_guard _ _ Hn) as Hg.
    assert (Hthr : (0 <= THRESHOLD)%Q) by (unfold THRESHOLD; lra).
    destruct (wf_prepare l H) as (c & rest & offs & El & Es & Eo & Ok & Inc & Hc & Hrest & Hm & Hb). subst l.
    exists c, rest. unfold reseat, reseat_with. rewrite Es, Eo.
    destruct (go_spec THRESHOLD Hthr rest offs c c 0%Q 0 eq_refl eq_refl Hm Hb ltac:(lia) Hc Hrest Ok Inc Hg) as [G _].
    assert (EL : reseat_loop (2 * length (c :: rest) + 2) THRESHOLD 0 0 (c :: rest) (0%Q :: offs) = ROk (go THRESHOLD 0 c 0%Q rest offs)).
    { apply (loop_go THRESHOLD rest offs [] [] c 0%Q 0%Z); auto. cbn [length]. lia. }
    rewrite EL.
    destruct rest as [|c1 rest']; [exists []; split; reflexivity|].
    destruct offs as [|o1 offs']; [destruct Ok|]. destruct Ok as [Ok1 _].
    destruct Hc as [Hbpm [Hmet Hint]].
    cbn [no_extend gaps_all gaps_forall] in Hn. apply andb_true_iff in Hn. destruct Hn as [Hn1 _].
    cbn [first_gap_ge1] in Hg1. apply Z.leb_le in Hg1.
    cbn [go].
    destruct (first_step_keeps THRESHOLD 0 (bs_bpm c) (bs_met c) o1 _ Hthr Hbpm Hmet ltac:(lia) Ok1 Hn1 Hg1) as [[m E]|[cc [off [m E]]]];
      rewrite E; eexists; split; reflexivity.
  Qed.

  (* the initial-tempo clause through reseat, under C11's guard on the text's tempo script *)
  Theorem bms_read_initial_tempo (lay : layout) (mk : Z) (lines : list text) :
    layout_ok mk lay = true -> text_dom lay lines -> read_guards tbl lines = true -> reseat_textb tbl lines = true ->
    exists c d b bs, bms_read tbl lay mk lines = Some c /\ bms_denote lay lines = Some d
      /\ c_bpms c = b :: bs /\ (bo_off b == 0)%Q /\ (bo_bpm b == d_bpm0 d)%Q.
  Proof.
    intros Lok TD G Rg.
    destruct (bms_read_returns lay mk lines Lok TD G) as [bv [bpm0 [tempos [tm [Hb [Hp [Ht [F [Ret _]]]]]]]]].
    unfold reseat_textb in Rg. rewrite Hb, Hp, Ht, F in Rg.
    destruct (bco_to_bcs tbl (sort_by bco_lt tm)) as [l'|] eqn:El; [|discriminate].
    apply andb_true_iff in Rg. destruct Rg as [Rg W]. apply andb_true_iff in Rg. destruct Rg as [Wf Gn].
    pose proof (no_extend_guard _ _ Gn) as Gd.
    destruct (td_denote lay lines TD) as [d [Hd Pos]].
    destruct (bms_denote_inv lay lines d Hd) as [bv' [bpm0' [tempos' [extq [hits [holds [Hb' [Hp' [Ht' [_ [_ Rd]]]]]]]]]]].
    fold (sobjs_of lines) in Ht. rewrite Hb in Hb'. inversion Hb'; subst bv'. rewrite Hp in Hp'. inversion Hp'; subst bpm0'.
    rewrite Ht in Ht'. inversion Ht'; subst tempos'. cbv zeta in Rd. destruct Rd as [_ [_ [Rt [_ [_ [_ [_ R0]]]]]]].
    (* the script lies in C10's domain *)
    assert (Dn : domainb tbl (script_of bpm0 tempos) [] = true).
    { pose proof (sobjs_ok lines (td_data lay lines TD)) as Fo.
      destruct (tempo_objs_facts _ _ _ Ht Fo (td_tempo_pos lay lines TD)) as [Nd [Ft _]].
      pose proof G as G'. unfold read_guards, tempo_on_grid in G'. fold (sobjs_of lines) in G'. rewrite Ht in G'.
      apply andb_true_iff in G'. destruct G' as [Pg _].
      apply (script_in_domain tbl bpm0 tempos [] Ft Nd); [|exact Pg|constructor].
      rewrite Rt in Pos. rewrite forallb_forall in Pos. apply Forall_forall. intros cc I. apply Qlt_bool_iff.
      apply (Pos (Qred (time_of 0 (script_of bpm0 tempos) (bs_snap cc)), bs_bpm cc)). apply in_map_iff. exists cc. split; [reflexivity|exact I]. }
    destruct (domainb_nil_sound tbl _ Dn) as [c0 [rest [Es [H0 [Hm0 [Hb0 Hs]]]]]].
    destruct (script_pairs tbl Hok 0 c0 rest H0 Hm0 Hb0 Hs) as [brest [c0' [bcss' [E1 [E2 [E3 [E4 _]]]]]]]. cbv zeta in *.
    rewrite <- Es, F in E1. inversion E1; subst tm. rewrite E2, E3 in El. inversion El; subst l'.
    (* reseat *)
    destruct (from_bcs_reseat_correct 0 (c0' :: bcss') Wf Gd) as [r [bcos [Er [_ [Fr Fn]]]]].
    destruct (reseat_head_kept (c0' :: bcss') Wf Gn W) as [cc [rr [rs [Ecc Ehead]]]]. inversion Ecc; subst cc rr.
    rewrite Er in Ehead. inversion Ehead; subst r.
    assert (Etm : tm_reseat tbl (mkBco (bs_bpm c0) (bs_met c0) 0 :: brest) = Some bcos).
    { unfold tm_reseat. rewrite E2, E3. cbn [bo_off]. exact Fr. }
    destruct (Ret bcos Etm) as [c [Rc Ec]].
    destruct (timeline_cons1 0 c0' rs) as [ts Ets]. rewrite Ets in Fn.
    destruct bcos as [|b bs]; [inversion Fn|]. inversion Fn as [|? ? ? ? [B1 B2] _]; subst.
    exists c, d, b, bs. split; [exact Rc|]. split; [exact Hd|]. split; [exact Ec|]. cbn [fst snd] in B1, B2. split.
    - rewrite B1. reflexivity.
    - rewrite B2, R0, Es. cbn. destruct E4 as [A _]. rewrite A. reflexivity.
  Qed.

  (* the same for the property's quantifier wf_bms_lines *)
  Corollary bms_read_wf_returns (lay : layout) (mk : Z) (lines : list text) :
    layout_ok mk lay = true -> wf_bms_lines lay lines = true -> read_guards tbl lines = true ->
    exists bv bpm0 tempos tm,
      hlookup S_BPM (headers_of lines) = Some bv /\ parse_decimal bv = Some bpm0
      /\ tempo_objs (table_of S_BPM (headers_of lines)) (flat_map objs_of_line lines) = Some tempos
      /\ from_bcs 0 (script_of bpm0 tempos) = Some tm
      /\ (forall bp, tm_reseat tbl tm = Some bp -> exists c, bms_read tbl lay mk lines = Some c /\ c_bpms c = bp)
      /\ (tm_reseat tbl tm = None -> bms_read tbl lay mk lines = None).
  Proof. intros L W G. apply (bms_read_returns lay mk lines L (wf_text_dom lay lines W) G). Qed.
  Corollary bms_read_wf_initial_tempo (lay : layout) (mk : Z) (lines : list text) :
    layout_ok mk lay = true -> wf_bms_lines lay lines = true -> read_guards tbl lines = true -> reseat_textb tbl lines = true ->
    exists c d b bs, bms_read tbl lay mk lines = Some c /\ bms_denote lay lines = Some d
      /\ c_bpms c = b :: bs /\ (bo_off b == 0)%Q /\ (bo_bpm b == d_bpm0 d)%Q.
  Proof. intros L W G R. apply (bms_read_initial_tempo lay mk lines L (wf_text_dom lay lines W) G R). Qed.
End Returns.
