(* The pandas DataFrame subset reamber uses, as lists.  Definitions only.
   A frame has column names (interned as integers by the harness; offset = 0, column = 1, length = 2,
   bpm = 3, metronome = 4 are fixed) and rows, each carrying its row LABEL (pandas index) and its cells. *)
From Coq Require Import ZArith QArith Qround List Bool.
From RV Require Import Base.PyNum.
Import ListNotations.
Open Scope Q_scope.

Inductive cell :=
| CNum (q : Q)          (* any numeric dtype; 0 and 0.0 are the same cell *)
| CStr (s : Z)          (* interned string / opaque object *)
| CBool (b : bool)
| CList (l : list Z)    (* list-valued cell (e.g. Quaver keysounds), elements interned *)
| CNaN                  (* missing value *)
| CNone.

Fixpoint zlist_eqb (a b : list Z) : bool :=
  match a, b with
  | [], [] => true
  | x :: a', y :: b' => (x =? y)%Z && zlist_eqb a' b'
  | _, _ => false
  end.

Definition cell_eqb (a b : cell) : bool :=
  match a, b with
  | CNum x, CNum y => Qeq_bool x y
  | CStr x, CStr y => (x =? y)%Z
  | CBool x, CBool y => Bool.eqb x y
  | CList x, CList y => zlist_eqb x y
  | CNaN, CNaN => true
  | CNone, CNone => true
  | _, _ => false
  end.

Definition row := list cell.
Fixpoint row_eqb (a b : row) : bool :=
  match a, b with
  | [], [] => true
  | x :: a', y :: b' => cell_eqb x y && row_eqb a' b'
  | _, _ => false
  end.

Record frame := mkFrame { fcols : list Z; frows : list (Z * row) }.

Definition COL_OFFSET : Z := 0.
Definition COL_COLUMN : Z := 1.
Definition COL_LENGTH : Z := 2.
Definition COL_BPM : Z := 3.
Definition COL_METRONOME : Z := 4.

Fixpoint col_index (c : Z) (cols : list Z) : option nat :=
  match cols with
  | [] => None
  | x :: cols' => if (x =? c)%Z then Some O else option_map S (col_index c cols')
  end.

Definition get_cell (cols : list Z) (c : Z) (r : row) : option cell :=
  match col_index c cols with
  | Some i => nth_error r i
  | None => None
  end.

Definition num_of (c : option cell) : option Q :=
  match c with Some (CNum q) => Some q | _ => None end.

Definition nrows (f : frame) : nat := length (frows f).
Definition labels (f : frame) : list Z := map fst (frows f).
Definition abs_rows (f : frame) : list row := map snd (frows f).        (* abstraction: forget labels *)

Definition wf_frame (f : frame) : bool :=
  forallb (fun lr => Nat.eqb (length (snd lr)) (length (fcols f))) (frows f).

(* df[mask] with a mask computed row-wise on the same frame *)
Definition filter_rows (p : row -> bool) (f : frame) : frame :=
  mkFrame (fcols f) (filter (fun lr => p (snd lr)) (frows f)).

(* positional range(start, stop, step) over a list (python slice after slice.indices) *)
Fixpoint range_idx (fuel : nat) (start stop step : Z) : list Z :=
  match fuel with
  | O => []
  | S fuel' =>
      if ((0 <? step) && (start <? stop) || (step <? 0) && (stop <? start))%Z
      then start :: range_idx fuel' (start + step) stop step
      else []
  end.
Definition nth_z {A} (l : list A) (i : Z) : option A :=
  if (i <? 0)%Z then None else nth_error l (Z.to_nat i).
Fixpoint pick {A} (l : list A) (idx : list Z) : list A :=
  match idx with
  | [] => []
  | i :: idx' => match nth_z l i with Some x => x :: pick l idx' | None => pick l idx' end
  end.
Definition iloc_slice (start stop step : Z) (f : frame) : frame :=
  mkFrame (fcols f) (pick (frows f) (range_idx (S (nrows f)) start stop step)).

(* df.iloc[i] for an int (negative counts from the end); None = IndexError *)
Definition iloc_row (i : Z) (f : frame) : option row :=
  let n := Z.of_nat (nrows f) in
  let j := if (i <? 0)%Z then (i + n)%Z else i in
  if ((j <? 0) || (n <=? j))%Z then None else option_map snd (nth_z (frows f) j).

(* stable insertion sort of rows by a numeric key, NaN/None keys last (na_position='last') *)
Definition key_lt (ascending : bool) (a b : option Q) : bool :=
  match a, b with
  | Some x, Some y => if ascending then Qlt_bool x y else Qlt_bool y x
  | Some _, None => true
  | None, _ => false
  end.
Fixpoint insert_row (lt : (Z * row) -> (Z * row) -> bool) (x : Z * row) (l : list (Z * row)) : list (Z * row) :=
  match l with
  | [] => [x]
  | y :: l' => if negb (lt x y) then y :: insert_row lt x l' else x :: l
  end.
Definition sort_rows (lt : (Z * row) -> (Z * row) -> bool) (l : list (Z * row)) : list (Z * row) :=
  fold_left (fun acc x => insert_row lt x acc) l [].

Definition sort_values (c : Z) (ascending : bool) (f : frame) : frame :=
  let key lr := num_of (get_cell (fcols f) c (snd lr)) in
  mkFrame (fcols f) (sort_rows (fun a b => key_lt ascending (key a) (key b)) (frows f)).

(* pd.concat([a, b], ignore_index=True) for frames with the same columns: labels 0..n-1 *)
Fixpoint relabel (k : Z) (l : list row) : list (Z * row) :=
  match l with
  | [] => []
  | r :: l' => (k, r) :: relabel (k + 1) l'
  end.
Definition concat_ignore_index (a : frame) (b : list row) : frame :=
  mkFrame (fcols a) (relabel 0 (abs_rows a ++ b)).

(* reset_index(): new 0..n-1 labels; the old labels become a new FIRST column named `index` (id 6) unless drop *)
Definition COL_INDEX : Z := 6.
Definition reset_index (drop : bool) (f : frame) : frame :=
  if drop then mkFrame (fcols f) (relabel 0 (abs_rows f))
  else mkFrame (COL_INDEX :: fcols f)
               (relabel 0 (map (fun lr => CNum (inject_Z (fst lr)) :: snd lr) (frows f))).

(* column update by a row-wise function (positional) *)
Fixpoint set_nth {A} (i : nat) (x : A) (l : list A) : list A :=
  match l, i with
  | [], _ => []
  | _ :: l', O => x :: l'
  | y :: l', S i' => y :: set_nth i' x l'
  end.
Definition map_col (c : Z) (g : cell -> cell) (f : frame) : frame :=
  match col_index c (fcols f) with
  | None => f
  | Some i => mkFrame (fcols f)
      (map (fun lr => (fst lr, match nth_error (snd lr) i with
                                | Some v => set_nth i (g v) (snd lr)
                                | None => snd lr end)) (frows f))
  end.
