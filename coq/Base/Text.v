(* Text as lists of Unicode code points, with the Python str operations reamber's codecs use
   (split / join / strip / count / startswith / find / rfind / slicing / list.index) and the decimal
   integer and decimal-fraction codecs (int(), float() on decimal texts; printing of integers and of
   fixed-point decimals), with their inverse lemmas.  General-purpose: nothing here is osu-specific. *)
From Coq Require Import String Ascii.
From Coq Require Import ZArith QArith Qround List Bool Lia.
Import ListNotations.
Open Scope Z_scope.

Definition text := list Z.

(* ASCII literal helper for MODEL files (never used for case literals). *)
Definition t (s : string) : text := map (fun a => Z.of_N (N_of_ascii a)) (list_ascii_of_string s).

Fixpoint text_eqb (a b : text) : bool :=
  match a, b with
  | [], [] => true
  | x :: a', y :: b' => (x =? y) && text_eqb a' b'
  | _, _ => false
  end.

Lemma text_eqb_eq a b : text_eqb a b = true <-> a = b.
Proof.
  revert b. induction a as [|x a IH]; destruct b as [|y b]; simpl; split; intro H; try congruence; auto.
  - apply andb_true_iff in H. destruct H as [H1 H2]. apply Z.eqb_eq in H1. apply IH in H2. congruence.
  - inversion H; subst. rewrite Z.eqb_refl. simpl. apply IH. reflexivity.
Qed.
Lemma text_eqb_refl a : text_eqb a a = true.
Proof. apply text_eqb_eq. reflexivity. Qed.

Fixpoint list_eqb {A} (e : A -> A -> bool) (a b : list A) : bool :=
  match a, b with
  | [], [] => true
  | x :: a', y :: b' => e x y && list_eqb e a' b'
  | _, _ => false
  end.

(* ---------------------------------------------------------------- split / join / count *)
(* Python  s.split(c)  for a one-character separator: never returns the empty list. *)
Fixpoint split_on (c : Z) (s : text) : list text :=
  match s with
  | [] => [[]]
  | x :: s' =>
      if x =? c then [] :: split_on c s'
      else match split_on c s' with
           | [] => [[x]]
           | h :: tl => (x :: h) :: tl
           end
  end.

(* Python  s.split(c, 1): at most one cut, at the FIRST separator *)
Fixpoint cut_at (c : Z) (s : text) : option (text * text) :=
  match s with
  | [] => None
  | x :: s' => if x =? c then Some ([], s')
               else match cut_at c s' with Some (a, b) => Some (x :: a, b) | None => None end
  end.
Definition split_once (c : Z) (s : text) : list text :=
  match cut_at c s with Some (a, b) => [a; b] | None => [s] end.

(* Python  c.join(l) *)
Fixpoint join (c : Z) (l : list text) : text :=
  match l with
  | [] => []
  | [a] => a
  | a :: rest => a ++ c :: join c rest
  end.

Fixpoint count (c : Z) (s : text) : nat :=
  match s with
  | [] => O
  | x :: s' => if x =? c then S (count c s') else count c s'
  end.

Definition has (c : Z) (s : text) : bool := existsb (Z.eqb c) s.

Lemma has_false_iff c s : has c s = false <-> ~ In c s.
Proof.
  unfold has. split.
  - intros H I. assert (E: existsb (Z.eqb c) s = true) by (apply existsb_exists; exists c; split; auto; apply Z.eqb_refl). congruence.
  - intro H. destruct (existsb (Z.eqb c) s) eqn:E; auto. apply existsb_exists in E. destruct E as [x [I E]].
    apply Z.eqb_eq in E. subst. contradiction.
Qed.

Lemma split_on_nonempty c s : split_on c s <> [].
Proof.
  induction s as [|x s IH]; simpl; try discriminate.
  destruct (x =? c); try discriminate. destruct (split_on c s); discriminate.
Qed.

Lemma split_on_no_sep c s : ~ In c s -> split_on c s = [s].
Proof.
  induction s as [|x s IH]; simpl; intro H; auto.
  destruct (Z.eqb_spec x c) as [E|E]. { exfalso. apply H. left. auto. }
  rewrite IH; auto.
Qed.

Lemma split_on_app c a b : ~ In c a -> split_on c (a ++ c :: b) = a :: split_on c b.
Proof.
  induction a as [|x a IH]; simpl; intro H.
  - rewrite Z.eqb_refl. reflexivity.
  - destruct (Z.eqb_spec x c) as [E|E]. { exfalso. apply H. left. auto. }
    rewrite IH; auto.
Qed.

Lemma cut_at_app c a b : ~ In c a -> cut_at c (a ++ c :: b) = Some (a, b).
Proof.
  induction a as [|x a IH]; simpl; intro H.
  - rewrite Z.eqb_refl. reflexivity.
  - destruct (Z.eqb_spec x c) as [E|E]; [exfalso; apply H; left; auto|].
    rewrite IH by (intro I; apply H; right; exact I). reflexivity.
Qed.
Lemma cut_at_none c s : ~ In c s -> cut_at c s = None.
Proof.
  induction s as [|x s IH]; simpl; intro H; auto.
  destruct (Z.eqb_spec x c) as [E|E]; [exfalso; apply H; left; auto|].
  rewrite IH by (intro I; apply H; right; exact I). reflexivity.
Qed.
Lemma cut_at_some c s a b : cut_at c s = Some (a, b) -> s = a ++ c :: b /\ ~ In c a.
Proof.
  revert a b. induction s as [|x s IH]; simpl; intros a b H; [discriminate|].
  destruct (Z.eqb_spec x c) as [E|E].
  - inversion H; subst. split; auto.
  - destruct (cut_at c s) as [[a' b']|] eqn:C; [|discriminate]. inversion H; subst.
    destruct (IH a' b eq_refl) as [S N]. split; [simpl; congruence|]. intros [I|I]; [congruence|auto].
Qed.
(* the value of "key:value" is everything after the first separator, whatever it contains *)
Theorem split_once_app c a b : ~ In c a -> split_once c (a ++ c :: b) = [a; b].
Proof. intro H. unfold split_once. rewrite cut_at_app by exact H. reflexivity. Qed.
Theorem split_once_no_sep c s : ~ In c s -> split_once c s = [s].
Proof. intro H. unfold split_once. rewrite cut_at_none by exact H. reflexivity. Qed.
Theorem join_split_once c s : join c (split_once c s) = s.
Proof.
  unfold split_once. destruct (cut_at c s) as [[a b]|] eqn:C; [|reflexivity].
  apply cut_at_some in C. destruct C as [S _]. simpl. symmetry. exact S.
Qed.

(* split is the inverse of join when no piece contains the separator *)
Theorem split_join c l : l <> [] -> Forall (fun p => ~ In c p) l -> split_on c (join c l) = l.
Proof.
  induction l as [|a l IH]; intros NE F; [congruence|].
  inversion F as [|? ? Ha Fl]; subst.
  destruct l as [|b l'].
  - simpl. apply split_on_no_sep. exact Ha.
  - change (join c (a :: b :: l')) with (a ++ c :: join c (b :: l')).
    rewrite split_on_app by exact Ha. f_equal. apply IH; [discriminate|exact Fl].
Qed.

(* join is the inverse of split, always *)
Theorem join_split c s : join c (split_on c s) = s.
Proof.
  induction s as [|x s IH]; simpl; auto.
  destruct (Z.eqb_spec x c) as [E|E].
  - subst. pose proof (split_on_nonempty c s) as NE. destruct (split_on c s) as [|h tl] eqn:S; [congruence|].
    simpl. simpl in IH. rewrite IH. reflexivity.
  - pose proof (split_on_nonempty c s) as NE. destruct (split_on c s) as [|h tl] eqn:S; [congruence|].
    destruct tl as [|h2 tl]; simpl in *; rewrite <- IH; reflexivity.
Qed.

Theorem split_pieces_no_sep c s : Forall (fun p => ~ In c p) (split_on c s).
Proof.
  induction s as [|x s IH]; simpl.
  - constructor; auto.
  - destruct (Z.eqb_spec x c) as [E|E].
    + constructor; auto.
    + destruct (split_on c s) as [|h tl]; [constructor; auto; intros [H|[]]; congruence|].
      inversion IH; subst. constructor; auto. intros [H|H]; [congruence|auto].
Qed.

Theorem split_length_count c s : length (split_on c s) = S (count c s).
Proof.
  induction s as [|x s IH]; simpl; auto.
  destruct (x =? c); simpl; [rewrite IH; reflexivity|].
  pose proof (split_on_nonempty c s). destruct (split_on c s); [congruence|]. simpl in *. exact IH.
Qed.

Lemma count_app c a b : count c (a ++ b) = (count c a + count c b)%nat.
Proof. induction a as [|x a IH]; simpl; auto. destruct (x =? c); simpl; rewrite IH; reflexivity. Qed.

Lemma count_zero_iff c s : count c s = O <-> ~ In c s.
Proof.
  induction s as [|x s IH]; simpl; split; intro H; auto.
  - destruct (Z.eqb_spec x c); [discriminate|]. intros [E|I]; [congruence|]. apply IH in H. contradiction.
  - destruct (Z.eqb_spec x c) as [E|E]; [exfalso; apply H; left; auto|]. apply IH. intro I. apply H. right. exact I.
Qed.

Definition sum_nat (l : list nat) : nat := fold_right plus O l.

(* occurrences of d in a c-joined text: those inside the pieces plus the separators when d = c *)
Theorem count_join d c l :
  count d (join c l) = (sum_nat (map (count d) l) + (if (d =? c)%Z then pred (length l) else 0))%nat.
Proof.
  induction l as [|a l IH]; [simpl; destruct (d =? c); reflexivity|].
  destruct l as [|b l'].
  - simpl. destruct (d =? c); lia.
  - change (join c (a :: b :: l')) with (a ++ c :: join c (b :: l')).
    rewrite count_app. change (count d (c :: join c (b :: l'))) with (if c =? d then S (count d (join c (b :: l'))) else count d (join c (b :: l'))).
    rewrite (Z.eqb_sym c d). rewrite IH.
    change (map (count d) (a :: b :: l')) with (count d a :: map (count d) (b :: l')).
    change (sum_nat (count d a :: map (count d) (b :: l'))) with (count d a + sum_nat (map (count d) (b :: l')))%nat.
    change (length (a :: b :: l')) with (S (length (b :: l'))).
    destruct (d =? c); simpl; lia.
Qed.

(* ---------------------------------------------------------------- strip *)
(* Python's str.isspace code points (re-checked against the live interpreter: Tables obligation) *)
Definition py_space : list Z :=
  [9; 10; 11; 12; 13; 28; 29; 30; 31; 32; 133; 160; 5760; 8192; 8193; 8194; 8195; 8196; 8197; 8198; 8199;
   8200; 8201; 8202; 8232; 8233; 8239; 8287; 12288].
Definition is_space (z : Z) : bool := existsb (Z.eqb z) py_space.

Fixpoint dropwhile {A} (p : A -> bool) (s : list A) : list A :=
  match s with
  | [] => []
  | x :: s' => if p x then dropwhile p s' else s
  end.
Definition lstrip_with (p : Z -> bool) (s : text) : text := dropwhile p s.
Definition rstrip_with (p : Z -> bool) (s : text) : text := rev (dropwhile p (rev s)).
Definition strip_with (p : Z -> bool) (s : text) : text := rstrip_with p (lstrip_with p s).
Definition strip (s : text) : text := strip_with is_space s.

Definition head_ok (p : Z -> bool) (s : text) : Prop := match s with [] => True | x :: _ => p x = false end.

Lemma dropwhile_head_ok {A} (p : A -> bool) s : match dropwhile p s with [] => True | x :: _ => p x = false end.
Proof. induction s as [|x s IH]; simpl; auto. destruct (p x) eqn:E; auto. Qed.

Lemma dropwhile_id (p : Z -> bool) s : head_ok p s -> dropwhile p s = s.
Proof. destruct s; simpl; auto. intro H. rewrite H. reflexivity. Qed.

Lemma dropwhile_suffix {A} (p : A -> bool) s : exists pre, s = pre ++ dropwhile p s.
Proof.
  induction s as [|x s [pre IH]]; simpl; [exists []; auto|].
  destruct (p x); [exists (x :: pre); simpl; congruence | exists []; auto].
Qed.

(* a text whose first and last characters are not blanks is unchanged by strip *)
Theorem strip_with_id p s : head_ok p s -> head_ok p (rev s) -> strip_with p s = s.
Proof.
  intros H1 H2. unfold strip_with, lstrip_with, rstrip_with.
  rewrite (dropwhile_id p s H1). rewrite (dropwhile_id p (rev s) H2). apply rev_involutive.
Qed.

Lemma head_ok_rstrip p s : head_ok p s -> head_ok p (rstrip_with p s).
Proof.
  unfold rstrip_with. intro H.
  destruct (dropwhile_suffix p (rev s)) as [pre E].
  assert (S: s = rev (dropwhile p (rev s)) ++ rev pre).
  { rewrite <- rev_app_distr. rewrite <- E. symmetry. apply rev_involutive. }
  destruct (rev (dropwhile p (rev s))) as [|y r] eqn:R; simpl; auto.
  rewrite S in H. simpl in H. exact H.
Qed.

Theorem strip_with_idem p s : strip_with p (strip_with p s) = strip_with p s.
Proof.
  apply strip_with_id.
  - unfold strip_with. apply head_ok_rstrip. unfold lstrip_with.
    pose proof (dropwhile_head_ok p s) as H. destruct (dropwhile p s); simpl; auto.
  - unfold strip_with, rstrip_with. rewrite rev_involutive.
    pose proof (dropwhile_head_ok p (rev (lstrip_with p s))) as H.
    destruct (dropwhile p (rev (lstrip_with p s))); simpl; auto.
Qed.
Theorem strip_idem s : strip (strip s) = strip s.
Proof. apply strip_with_idem. Qed.

(* ---------------------------------------------------------------- prefix / search / slices *)
Fixpoint startswith (p s : text) : bool :=
  match p, s with
  | [], _ => true
  | x :: p', y :: s' => (x =? y) && startswith p' s'
  | _ :: _, [] => false
  end.

Lemma startswith_app p s : startswith p (p ++ s) = true.
Proof. induction p as [|x p IH]; simpl; auto. rewrite Z.eqb_refl. exact IH. Qed.

(* s.find(c) / s.rfind(c) for a one-character needle: index or -1 *)
Fixpoint find_from (c : Z) (s : text) (i : Z) : Z :=
  match s with
  | [] => -1
  | x :: s' => if x =? c then i else find_from c s' (i + 1)
  end.
Definition find (c : Z) (s : text) : Z := find_from c s 0.
Fixpoint rfind_from (c : Z) (s : text) (i : Z) (best : Z) : Z :=
  match s with
  | [] => best
  | x :: s' => rfind_from c s' (i + 1) (if x =? c then i else best)
  end.
Definition rfind (c : Z) (s : text) : Z := rfind_from c s 0 (-1).

Definition zlen {A} (s : list A) : Z := Z.of_nat (length s).
(* Python slice s[a:b] with negative indices counted from the end and clamping *)
Definition norm_ix (n i : Z) : Z := if i <? 0 then Z.max 0 (n + i) else Z.min i n.
Definition py_slice {A} (s : list A) (a b : Z) : list A :=
  let n := zlen s in
  let a' := norm_ix n a in
  let b' := norm_ix n b in
  firstn (Z.to_nat (b' - a')) (skipn (Z.to_nat a') s).
Definition py_slice_from {A} (s : list A) (a : Z) : list A := skipn (Z.to_nat (norm_ix (zlen s) a)) s.
Definition py_slice_to {A} (s : list A) (b : Z) : list A := firstn (Z.to_nat (norm_ix (zlen s) b)) s.

(* list.index(x): position of the first equal element *)
Fixpoint index_of (x : text) (l : list text) : option Z :=
  match l with
  | [] => None
  | y :: l' => if text_eqb y x then Some 0 else option_map Z.succ (index_of x l')
  end.

Fixpoint nth_text (l : list text) (n : nat) : option text :=
  match l, n with
  | [], _ => None
  | x :: _, O => Some x
  | _ :: l', S n' => nth_text l' n'
  end.

(* ---------------------------------------------------------------- decimal integers *)
Definition is_digit (c : Z) : bool := (48 <=? c) && (c <=? 57).

(* value of a digit string, with accumulator; None on a non-digit *)
Fixpoint digits_val (acc : Z) (s : text) : option Z :=
  match s with
  | [] => Some acc
  | c :: s' => if is_digit c then digits_val (acc * 10 + (c - 48)) s' else None
  end.

Definition parse_nat (s : text) : option Z :=
  match s with [] => None | _ => digits_val 0 s end.

(* [+-]digits, no blanks *)
Definition parse_int (s : text) : option Z :=
  match s with
  | 45 :: r => option_map Z.opp (parse_nat r)
  | 43 :: r => parse_nat r
  | _ => parse_nat s
  end.

(* Python int(s) on decimal texts: surrounding blanks are ignored.  (Python additionally accepts
   '_' separators and non-ASCII digits; such texts are outside every dialect modelled.) *)
Definition py_int (s : text) : option Z := parse_int (strip s).

Fixpoint show_nat_go (fuel : nat) (n : Z) (acc : text) : text :=
  match fuel with
  | O => acc
  | S f => let acc' := (48 + n mod 10) :: acc in
           if n / 10 =? 0 then acc' else show_nat_go f (n / 10) acc'
  end.
(* str(n) for n >= 0 *)
Definition show_nat (n : Z) : text :=
  if n =? 0 then [48] else show_nat_go (S (Z.to_nat (Z.log2 n))) n [].
(* str(z) *)
Definition show_int (z : Z) : text := if z <? 0 then 45 :: show_nat (- z) else show_nat z.

Lemma is_digit_of_mod n : is_digit (48 + n mod 10) = true.
Proof. unfold is_digit. pose proof (Z.mod_pos_bound n 10 ltac:(lia)). apply andb_true_iff. split; apply Z.leb_le; lia. Qed.

(* reading back the digits produced: the accumulator form used by all codec lemmas *)
Lemma digits_val_show_go fuel : forall n acc,
  0 <= n < 2 ^ Z.of_nat fuel -> (fuel <> O) ->
  digits_val 0 (show_nat_go fuel n acc) = digits_val n acc.
Proof.
  induction fuel as [|f IH]; intros n acc Hn Hf; [congruence|].
  cbn [show_nat_go].
  destruct (Z.eqb_spec (n / 10) 0) as [E|E].
  - cbn [digits_val]. rewrite is_digit_of_mod.
    replace (0 * 10 + (48 + n mod 10 - 48)) with n; auto.
    pose proof (Z.div_mod n 10 ltac:(lia)). lia.
  - assert (Hn10: 0 <= n / 10 < 2 ^ Z.of_nat f).
    { split; [apply Z.div_pos; lia|].
      rewrite Nat2Z.inj_succ, Z.pow_succ_r in Hn by lia.
      apply Z.div_lt_upper_bound; lia. }
    destruct f as [|f'].
    { simpl in Hn10. lia. }
    rewrite IH; auto.
    cbn [digits_val]. rewrite is_digit_of_mod.
    replace (n / 10 * 10 + (48 + n mod 10 - 48)) with n; auto.
    pose proof (Z.div_mod n 10 ltac:(lia)). lia.
Qed.

Lemma show_nat_go_nonempty fuel n acc : fuel <> O -> show_nat_go fuel n acc <> [].
Proof.
  revert n acc. induction fuel as [|f IH]; intros n acc H; [congruence|].
  cbn [show_nat_go]. destruct (n / 10 =? 0); [discriminate|].
  destruct f; [discriminate|]. apply IH. discriminate.
Qed.

Lemma show_nat_nonempty n : show_nat n <> [].
Proof. unfold show_nat. destruct (n =? 0); [discriminate|]. apply show_nat_go_nonempty. discriminate. Qed.

Theorem parse_show_nat n : 0 <= n -> parse_nat (show_nat n) = Some n.
Proof.
  intro H. unfold parse_nat. pose proof (show_nat_nonempty n) as NE.
  destruct (show_nat n) eqn:S; [congruence|]. rewrite <- S. clear S NE.
  unfold show_nat. destruct (Z.eqb_spec n 0) as [E|E]; [subst; reflexivity|].
  rewrite digits_val_show_go; [reflexivity| |discriminate].
  split; auto. rewrite Nat2Z.inj_succ, Z2Nat.id by (apply Z.log2_nonneg).
  apply Z.log2_spec. lia.
Qed.

(* every character of a printed natural is a digit *)
Lemma show_nat_go_digits fuel : forall n acc, forallb is_digit acc = true -> forallb is_digit (show_nat_go fuel n acc) = true.
Proof.
  induction fuel as [|f IH]; intros n acc H; cbn [show_nat_go]; auto.
  destruct (n / 10 =? 0).
  - cbn [forallb]. rewrite is_digit_of_mod. exact H.
  - apply IH. cbn [forallb]. rewrite is_digit_of_mod. exact H.
Qed.
Lemma show_nat_digits n : forallb is_digit (show_nat n) = true.
Proof. unfold show_nat. destruct (n =? 0); [reflexivity|]. apply show_nat_go_digits. reflexivity. Qed.

Lemma show_nat_first_digit n : match show_nat n with [] => False | c :: _ => is_digit c = true end.
Proof.
  pose proof (show_nat_digits n) as D. pose proof (show_nat_nonempty n) as NE.
  destruct (show_nat n); [congruence|]. simpl in D. apply andb_true_iff in D. tauto.
Qed.

Theorem parse_show_int z : parse_int (show_int z) = Some z.
Proof.
  unfold show_int. destruct (Z.ltb_spec z 0) as [L|L].
  - cbn [parse_int]. rewrite parse_show_nat by lia. simpl. f_equal. lia.
  - pose proof (show_nat_first_digit z) as F. pose proof (parse_show_nat z L) as P.
    destruct (show_nat z) as [|c r] eqn:S; [contradiction|].
    unfold parse_int. unfold is_digit in F. apply andb_true_iff in F. destruct F as [F1 F2].
    apply Z.leb_le in F1. apply Z.leb_le in F2.
    destruct (Z.eqb_spec c 45); [lia|]. destruct (Z.eqb_spec c 43); [lia|].
    destruct c as [|p|p]; try lia.
    do 6 (destruct p as [p|p|]; try lia; try exact P).
Qed.

(* characters of a printed integer: digits or '-' *)
Definition is_int_char (c : Z) : bool := is_digit c || (c =? 45).
Lemma show_int_chars z : forallb is_int_char (show_int z) = true.
Proof.
  unfold show_int. assert (H: forall n, forallb is_int_char (show_nat n) = true).
  { intro n. pose proof (show_nat_digits n) as D. induction (show_nat n) as [|c r IH]; simpl in *; auto.
    apply andb_true_iff in D. destruct D as [D1 D2]. unfold is_int_char. rewrite D1. simpl. auto. }
  destruct (z <? 0); simpl; auto.
Qed.

Lemma forallb_not_in (p : Z -> bool) s c : forallb p s = true -> p c = false -> ~ In c s.
Proof.
  intros F P I. rewrite forallb_forall in F. apply F in I. congruence.
Qed.

Lemma show_int_no c z : is_int_char c = false -> ~ In c (show_int z).
Proof. intro H. eapply forallb_not_in; [apply show_int_chars|exact H]. Qed.

Lemma show_int_nonempty z : show_int z <> [].
Proof. unfold show_int. destruct (z <? 0); [discriminate|apply show_nat_nonempty]. Qed.

Lemma is_int_char_not_space c : is_int_char c = true -> is_space c = false.
Proof.
  unfold is_int_char, is_digit. intro H.
  assert (R: (48 <= c <= 57) \/ c = 45).
  { apply orb_true_iff in H. destruct H as [H|H]; [left|right].
    - apply andb_true_iff in H. destruct H as [A B]. apply Z.leb_le in A. apply Z.leb_le in B. lia.
    - apply Z.eqb_eq in H. exact H. }
  unfold is_space, py_space. simpl.
  repeat match goal with |- context [c =? ?k] => destruct (Z.eqb_spec c k); [lia|] end. reflexivity.
Qed.

Lemma strip_show_int z : strip (show_int z) = show_int z.
Proof.
  pose proof (show_int_chars z) as C. pose proof (show_int_nonempty z) as NE.
  apply strip_with_id.
  - destruct (show_int z) as [|c r]; simpl; auto. simpl in C. apply andb_true_iff in C.
    apply is_int_char_not_space. tauto.
  - assert (C': forallb is_int_char (rev (show_int z)) = true).
    { apply forallb_forall. intros x I. apply in_rev in I. rewrite forallb_forall in C. auto. }
    destruct (rev (show_int z)) as [|c r]; simpl; auto. simpl in C'. apply andb_true_iff in C'.
    apply is_int_char_not_space. tauto.
Qed.

(* int(str(z)) = z *)
Theorem py_int_show_int z : py_int (show_int z) = Some z.
Proof. unfold py_int. rewrite strip_show_int. apply parse_show_int. Qed.

(* ---------------------------------------------------------------- decimal fractions *)
Open Scope Q_scope.

Definition pow10 (n : Z) : Q := if (n <? 0)%Z then 1 / inject_Z (10 ^ (- n)) else inject_Z (10 ^ n).

(* digits[.digits] -> (all digits value, number of fractional digits); at least one digit *)
Definition parse_mantissa (s : text) : option (Z * Z) :=
  match split_on 46 s with
  | [ip] => match ip with [] => None | _ => option_map (fun v => (v, 0%Z)) (digits_val 0 ip) end
  | [ip; fp] => match ip ++ fp with
                | [] => None
                | all => option_map (fun v => (v, zlen fp)) (digits_val 0 all)
                end
  | _ => None
  end.

Definition lower_e (c : Z) : Z := if (c =? 69)%Z then 101%Z else c.

(* unsigned decimal with optional exponent *)
Definition parse_udec (s : text) : option Q :=
  match split_on 101 (map lower_e s) with
  | [m] => match parse_mantissa m with
           | Some (v, k) => Some (Qred (inject_Z v * pow10 (- k)))
           | None => None end
  | [m; e] => match parse_mantissa m, parse_int e with
              | Some (v, k), Some x => Some (Qred (inject_Z v * pow10 (x - k)))
              | _, _ => None end
  | _ => None
  end.

(* [+-]digits[.digits][e[+-]digits] -> exact rational *)
Definition parse_dec (s : text) : option Q :=
  match s with
  | 45%Z :: r => option_map (fun q => Qred (- q)) (parse_udec r)
  | 43%Z :: r => parse_udec r
  | _ => parse_udec s
  end.

(* Python float(s) on decimal texts, before binary64 rounding: blanks ignored.  ('inf', 'nan', '_'
   separators and non-ASCII digits are outside every dialect modelled.) *)
Definition py_float (s : text) : option Q := parse_dec (strip s).

(* fixed-point printing of  m / 10^k  (k >= 0): sign, integer part, '.', exactly k fractional digits *)
Fixpoint show_digits_pad (k : nat) (n : Z) (acc : text) : text :=
  match k with
  | O => acc
  | S k' => show_digits_pad k' (n / 10) ((48 + n mod 10)%Z :: acc)
  end.
Definition show_fixed (m : Z) (k : nat) : text :=
  let a := Z.abs m in
  let ip := (a / 10 ^ Z.of_nat k)%Z in
  let fp := (a mod 10 ^ Z.of_nat k)%Z in
  (if (m <? 0)%Z then [45%Z] else []) ++ show_nat ip ++
  match k with O => [] | _ => 46%Z :: show_digits_pad k fp [] end.

Close Scope Q_scope.

(* ---------------------------------------------------------------- fixed-point printing is read back *)
Lemma digits_val_app a b : forall acc,
  digits_val acc (a ++ b) = match digits_val acc a with Some v => digits_val v b | None => None end.
Proof.
  induction a as [|c a IH]; intro acc; simpl; auto. destruct (is_digit c); auto.
Qed.

Lemma show_digits_pad_val k : forall n acc a0,
  digits_val a0 (show_digits_pad k n acc) = digits_val (a0 * 10 ^ Z.of_nat k + n mod 10 ^ Z.of_nat k) acc.
Proof.
  induction k as [|k IH]; intros n acc a0.
  - simpl. rewrite Z.mod_1_r. f_equal. lia.
  - cbn [show_digits_pad]. rewrite IH. cbn [digits_val]. rewrite is_digit_of_mod. f_equal.
    rewrite Nat2Z.inj_succ, Z.pow_succ_r by lia.
    assert (P: 0 < 10 ^ Z.of_nat k) by (apply Z.pow_pos_nonneg; lia).
    rewrite (Z.rem_mul_r n 10 (10 ^ Z.of_nat k)) by lia. ring.
Qed.

Lemma show_digits_pad_chars k : forall n acc,
  forallb is_digit acc = true -> forallb is_digit (show_digits_pad k n acc) = true.
Proof.
  induction k as [|k IH]; intros n acc H; cbn [show_digits_pad]; auto.
  apply IH. cbn [forallb]. rewrite is_digit_of_mod. exact H.
Qed.
Lemma show_digits_pad_length k : forall n acc, length (show_digits_pad k n acc) = (k + length acc)%nat.
Proof.
  induction k as [|k IH]; intros n acc; cbn [show_digits_pad]; auto. rewrite IH. simpl. lia.
Qed.

Open Scope Q_scope.
Lemma pow10_neg k : pow10 (- Z.of_nat k) == 1 / inject_Z (10 ^ Z.of_nat k).
Proof.
  unfold pow10. destruct k as [|k].
  - simpl. reflexivity.
  - assert (E: (- Z.of_nat (S k) <? 0)%Z = true) by (apply Z.ltb_lt; lia). rewrite E.
    rewrite Z.opp_involutive. reflexivity.
Qed.

(* the unsigned core: ip '.' k digits  reads back as  ip + fp / 10^k *)
Lemma parse_udec_fixed ip fp k : (0 <= ip)%Z -> (k <> 0)%nat ->
  exists q, parse_udec (show_nat ip ++ 46%Z :: show_digits_pad k fp []) = Some q /\
            q == inject_Z (ip * 10 ^ Z.of_nat k + fp mod 10 ^ Z.of_nat k) / inject_Z (10 ^ Z.of_nat k).
Proof.
  intros Hip Hk.
  pose proof (show_nat_digits ip) as D1. pose proof (show_digits_pad_chars k fp [] eq_refl) as D2.
  assert (DL: forall s, forallb is_digit s = true -> map lower_e s = s).
  { induction s as [|c s IH]; simpl; auto. intro H. apply andb_true_iff in H. destruct H as [H1 H2].
    rewrite IH by auto. f_equal. unfold lower_e. destruct (Z.eqb_spec c 69); auto. subst. discriminate. }
  assert (NI: forall c s, forallb is_digit s = true -> is_digit c = false -> ~ In c s).
  { intros c s F P I. rewrite forallb_forall in F. apply F in I. congruence. }
  unfold parse_udec. rewrite map_app. cbn [map]. rewrite (DL _ D1), (DL _ D2). change (lower_e 46) with 46%Z.
  rewrite split_on_no_sep.
  2:{ intro I. apply in_app_or in I. destruct I as [I|[I|I]]; [exact (NI 101%Z _ D1 eq_refl I)|discriminate|exact (NI 101%Z _ D2 eq_refl I)]. }
  unfold parse_mantissa. rewrite split_on_app by (apply NI; [exact D1|reflexivity]).
  rewrite split_on_no_sep by (apply NI; [exact D2|reflexivity]).
  pose proof (show_nat_nonempty ip) as NE.
  destruct (show_nat ip ++ show_digits_pad k fp []) as [|c0 r0] eqn:S.
  { destruct (show_nat ip); [congruence|discriminate]. }
  rewrite <- S. rewrite digits_val_app.
  pose proof (parse_show_nat ip Hip) as P. unfold parse_nat in P. destruct (show_nat ip) as [|c r] eqn:S2; [congruence|].
  rewrite P. rewrite show_digits_pad_val. cbn [digits_val option_map].
  eexists. split; [reflexivity|]. rewrite Qred_correct.
  unfold zlen. rewrite show_digits_pad_length. simpl length. rewrite Nat.add_0_r. rewrite pow10_neg.
  field. assert (Pz: (0 < 10 ^ Z.of_nat k)%Z) by (apply Z.pow_pos_nonneg; lia).
  intro E. assert (X: inject_Z 0 < inject_Z (10 ^ Z.of_nat k)) by (rewrite <- Zlt_Qlt; exact Pz).
  rewrite E in X. apply (Qlt_irrefl _ X).
Qed.

(* float(show_fixed m k) denotes m / 10^k   (k >= 1) *)
Theorem parse_dec_show_fixed m k : (k <> 0)%nat ->
  exists q, parse_dec (show_fixed m k) = Some q /\ q == inject_Z m / inject_Z (10 ^ Z.of_nat k).
Proof.
  intro Hk. assert (Pz: (0 < 10 ^ Z.of_nat k)%Z) by (apply Z.pow_pos_nonneg; lia).
  assert (NZ: ~ inject_Z (10 ^ Z.of_nat k) == 0).
  { intro E. assert (X: inject_Z 0 < inject_Z (10 ^ Z.of_nat k)) by (rewrite <- Zlt_Qlt; exact Pz).
    rewrite E in X. apply (Qlt_irrefl _ X). }
  unfold show_fixed. destruct k as [|k']; [congruence|]. set (k := S k') in *.
  assert (Hip: (0 <= Z.abs m / 10 ^ Z.of_nat k)%Z) by (apply Z.div_pos; lia).
  destruct (parse_udec_fixed (Z.abs m / 10 ^ Z.of_nat k) (Z.abs m mod 10 ^ Z.of_nat k) k Hip Hk) as [q [P E]].
  assert (V: (Z.abs m / 10 ^ Z.of_nat k * 10 ^ Z.of_nat k + (Z.abs m mod 10 ^ Z.of_nat k) mod 10 ^ Z.of_nat k = Z.abs m)%Z).
  { rewrite Z.mod_mod by lia. pose proof (Z.div_mod (Z.abs m) (10 ^ Z.of_nat k) ltac:(lia)). lia. }
  rewrite V in E.
  destruct (Z.ltb_spec m 0) as [L|L].
  - cbn [app parse_dec]. rewrite P. cbn [option_map]. eexists. split; [reflexivity|].
    rewrite Qred_correct, E. rewrite Z.abs_neq by lia. rewrite inject_Z_opp. field. exact NZ.
  - cbn [app]. pose proof (show_nat_first_digit (Z.abs m / 10 ^ Z.of_nat k)) as F.
    destruct (show_nat (Z.abs m / 10 ^ Z.of_nat k)) as [|c r] eqn:S; [contradiction|].
    cbn [app] in *.
    assert (HD: parse_dec (c :: r ++ 46%Z :: show_digits_pad k (Z.abs m mod 10 ^ Z.of_nat k) []) =
                parse_udec (c :: r ++ 46%Z :: show_digits_pad k (Z.abs m mod 10 ^ Z.of_nat k) [])).
    { unfold is_digit in F. apply andb_true_iff in F. destruct F as [F1 F2].
      apply Z.leb_le in F1. apply Z.leb_le in F2. unfold parse_dec.
      destruct c as [|p|p]; try lia. do 6 (destruct p as [p|p|]; try lia; try reflexivity). }
    rewrite HD, P. exists q. split; auto. rewrite E. rewrite Z.abs_eq by lia. reflexivity.
Qed.
Close Scope Q_scope.
