(* Exact-rational counterparts of the Python numeric operations reamber uses. *)
From Coq Require Import ZArith QArith Qround Qabs List Bool Lia Lqa.
Import ListNotations.
Open Scope Q_scope.

Definition Qlt_bool (a b : Q) : bool := negb (Qle_bool b a).
Definition Qfl (q : Q) : Z := Qfloor q.
(* Python  a // b  and  a % b  on Fractions (b <> 0) *)
Definition qfloordiv (a b : Q) : Z := Qfloor (a / b).
Definition qmod (a b : Q) : Q := a - inject_Z (Qfloor (a / b)) * b.
Definition frac (x : Q) : Q := x - inject_Z (Qfloor x).
Definition Qmax' (a b : Q) : Q := if Qle_bool a b then b else a.
Definition Qmin' (a b : Q) : Q := if Qle_bool a b then a else b.
(* int(x): truncation toward zero *)
Definition qtrunc (x : Q) : Z := if Qle_bool 0 x then Qfloor x else (- Qfloor (- x))%Z.

Lemma Qlt_bool_iff a b : Qlt_bool a b = true <-> a < b.
Proof.
  unfold Qlt_bool. rewrite negb_true_iff. split; intro H.
  - apply Qnot_le_lt. intro C. apply Qle_bool_iff in C. congruence.
  - destruct (Qle_bool b a) eqn:E; auto. apply Qle_bool_iff in E. lra.
Qed.
Lemma Qlt_bool_false a b : Qlt_bool a b = false <-> b <= a.
Proof.
  unfold Qlt_bool. rewrite negb_false_iff. apply Qle_bool_iff.
Qed.
Lemma Qle_bool_false a b : Qle_bool a b = false <-> b < a.
Proof.
  split; intro H.
  - apply Qnot_le_lt. intro C. apply Qle_bool_iff in C. congruence.
  - destruct (Qle_bool a b) eqn:E; auto. apply Qle_bool_iff in E. lra.
Qed.

Lemma frac_range x : 0 <= frac x /\ frac x < 1.
Proof.
  unfold frac. pose proof (Qfloor_le x). pose proof (Qlt_floor x).
  rewrite inject_Z_plus in H0. change (inject_Z 1) with 1 in H0. lra.
Qed.

Lemma Qfloor_unique (x : Q) (z : Z) : inject_Z z <= x -> x < inject_Z z + 1 -> Qfloor x = z.
Proof.
  intros H1 H2. pose proof (Qfloor_le x) as F1. pose proof (Qlt_floor x) as F2.
  rewrite inject_Z_plus in F2. change (inject_Z 1) with 1 in F2.
  assert (A: inject_Z z < inject_Z (Qfloor x) + 1) by lra.
  assert (B: inject_Z (Qfloor x) < inject_Z z + 1) by lra.
  change 1 with (inject_Z 1) in A, B. rewrite <- inject_Z_plus in A, B.
  rewrite <- Zlt_Qlt in A, B. lia.
Qed.

Lemma Qfloor_add_Z (x : Q) (z : Z) : Qfloor (x + inject_Z z) = (Qfloor x + z)%Z.
Proof.
  apply Qfloor_unique.
  - rewrite inject_Z_plus. pose proof (Qfloor_le x). lra.
  - rewrite inject_Z_plus. pose proof (Qlt_floor x) as F. rewrite inject_Z_plus in F.
    change (inject_Z 1) with 1 in F. lra.
Qed.

Lemma frac_of_unit (t : Q) (k : Z) : 0 <= t -> t < 1 -> frac (t + inject_Z k) == t /\ Qfloor (t + inject_Z k) = k.
Proof.
  intros H0 H1. assert (E: Qfloor (t + inject_Z k) = k) by (apply Qfloor_unique; lra).
  split; auto. unfold frac. rewrite E. lra.
Qed.
