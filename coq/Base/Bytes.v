(* Bytes: little-endian integers (struct "<h" / "<i") and IEEE-754 binary32 ("<f") over [list Z] bytes.
   A byte is a Z in 0..255.  Decoders return [option] (None = struct.error: wrong length);
   binary32 values are exact rationals; infinities and NaN are rejected (None). *)
From Coq Require Import ZArith QArith List Bool Lia.
Import ListNotations.
Open Scope Z_scope.

Definition byte_ok (b : Z) : bool := (0 <=? b) && (b <? 256).
Definition bytes_ok (l : list Z) : bool := forallb byte_ok l.

(* ---- unsigned / two's complement little endian ---- *)
Fixpoint le_unsigned (l : list Z) : Z :=
  match l with [] => 0 | b :: r => b + 256 * le_unsigned r end.

Definition to_signed (bits v : Z) : Z := if v <? 2 ^ (bits - 1) then v else v - 2 ^ bits.
Definition of_signed (bits v : Z) : Z := v mod 2 ^ bits.

Definition le_uint32 (l : list Z) : option Z :=
  match l with [_; _; _; _] => Some (le_unsigned l) | _ => None end.
Definition le_int32 (l : list Z) : option Z :=
  match l with [_; _; _; _] => Some (to_signed 32 (le_unsigned l)) | _ => None end.
Definition le_int16 (l : list Z) : option Z :=
  match l with [_; _] => Some (to_signed 16 (le_unsigned l)) | _ => None end.

(* the encoder (struct.pack), used by specifications *)
Fixpoint le_encode (n : nat) (v : Z) : list Z :=
  match n with O => [] | S k => (v mod 256) :: le_encode k (v / 256) end.
Definition enc_int32 (v : Z) : list Z := le_encode 4 (of_signed 32 v).
Definition enc_int16 (v : Z) : list Z := le_encode 2 (of_signed 16 v).

(* ---- IEEE-754 binary32 bit pattern -> exact rational ---- *)
Definition f32_sign (w : Z) : Z := w / 2 ^ 31.
Definition f32_exp (w : Z) : Z := (w / 2 ^ 23) mod 256.
Definition f32_man (w : Z) : Z := w mod 2 ^ 23.

(* m * 2^k as a rational, k any integer *)
Definition scale2 (m k : Z) : Q :=
  if 0 <=? k then inject_Z (m * 2 ^ k) else Qmake m (Z.to_pos (2 ^ (- k))).

Definition f32_mag (w : Z) : Q :=
  let e := f32_exp w in let m := f32_man w in
  if e =? 0 then scale2 m (-149) else scale2 (2 ^ 23 + m) (e - 150).
Definition f32_val (w : Z) : Q :=
  Qred (if f32_sign w =? 0 then f32_mag w else Qopp (f32_mag w)).
Definition f32_of_bits (w : Z) : option Q :=
  if f32_exp w =? 255 then None else Some (f32_val w).

Definition le_float32 (l : list Z) : option Q :=
  match le_uint32 l with Some w => f32_of_bits w | None => None end.

(* ------------------------------------------------------------------ lemmas *)
Lemma byte_ok_iff b : byte_ok b = true <-> 0 <= b < 256.
Proof. unfold byte_ok. rewrite andb_true_iff, Z.leb_le, Z.ltb_lt. tauto. Qed.

Lemma le_encode_length n v : length (le_encode n v) = n.
Proof. revert v; induction n; intros; simpl; auto. Qed.

Lemma le_encode_bytes_ok n v : bytes_ok (le_encode n v) = true.
Proof.
  revert v; induction n; intros; simpl; auto.
  rewrite IHn, andb_true_r. apply byte_ok_iff. apply Z.mod_pos_bound. lia.
Qed.

Lemma le_unsigned_encode n v : 0 <= v < 256 ^ Z.of_nat n -> le_unsigned (le_encode n v) = v.
Proof.
  revert v; induction n; intros v H.
  - simpl in *. lia.
  - cbn [le_encode le_unsigned]. rewrite IHn.
    + pose proof (Z.div_mod v 256). lia.
    + rewrite Nat2Z.inj_succ, Z.pow_succ_r in H by lia.
      split; [apply Z.div_pos; lia | apply Z.div_lt_upper_bound; lia].
Qed.

Lemma le_unsigned_range l : bytes_ok l = true -> 0 <= le_unsigned l < 256 ^ Z.of_nat (length l).
Proof.
  induction l; intro H.
  - simpl. lia.
  - cbn [bytes_ok forallb] in H. apply andb_true_iff in H as [Ha Hl]. apply byte_ok_iff in Ha.
    specialize (IHl Hl). cbn [le_unsigned length]. rewrite Nat2Z.inj_succ, Z.pow_succ_r by lia. lia.
Qed.

(* the decoder is injective on byte strings: re-encoding gives the same bytes *)
Lemma le_encode_unsigned l : bytes_ok l = true -> le_encode (length l) (le_unsigned l) = l.
Proof.
  induction l; intro H; auto.
  cbn [bytes_ok forallb] in H. apply andb_true_iff in H as [Ha Hl]. apply byte_ok_iff in Ha.
  cbn [length le_unsigned le_encode].
  replace (a + 256 * le_unsigned l) with (a + le_unsigned l * 256) by lia.
  rewrite Z.mod_add by lia. rewrite Z.div_add by lia.
  rewrite (Z.mod_small a) by lia. rewrite (Z.div_small a) by lia. cbn [Z.add].
  now rewrite IHl.
Qed.

Lemma to_of_signed bits v : 0 < bits -> - 2 ^ (bits - 1) <= v < 2 ^ (bits - 1) ->
  to_signed bits (of_signed bits v) = v.
Proof.
  intros Hb H. unfold to_signed, of_signed.
  assert (E: 2 ^ bits = 2 * 2 ^ (bits - 1)).
  { replace bits with (Z.succ (bits - 1)) at 1 by lia. rewrite Z.pow_succ_r; lia. }
  destruct (Z_lt_le_dec v 0).
  - replace (v mod 2 ^ bits) with (v + 2 ^ bits).
    2:{ apply Z.mod_unique with (q := -1); lia. }
    destruct (Z.ltb_spec (v + 2 ^ bits) (2 ^ (bits - 1))); lia.
  - rewrite Z.mod_small by lia. destruct (Z.ltb_spec v (2 ^ (bits - 1))); lia.
Qed.

Lemma of_signed_range bits v : 0 < bits -> 0 <= of_signed bits v < 2 ^ bits.
Proof. intros. unfold of_signed. apply Z.mod_pos_bound. lia. Qed.

(* le_int_roundtrip: unpack("<i", pack("<i", v)) = v on the int32 range; same for int16 *)
Theorem le_int32_roundtrip v : - 2 ^ 31 <= v < 2 ^ 31 -> le_int32 (enc_int32 v) = Some v.
Proof.
  intro H. unfold enc_int32.
  pose proof (of_signed_range 32 v ltac:(lia)) as R.
  assert (E: le_unsigned (le_encode 4 (of_signed 32 v)) = of_signed 32 v).
  { apply le_unsigned_encode. change (256 ^ Z.of_nat 4) with (2 ^ 32). exact R. }
  unfold le_int32. cbn [le_encode]. cbn [le_encode] in E. rewrite E.
  f_equal. apply to_of_signed; [lia|]. exact H.
Qed.

Theorem le_int16_roundtrip v : - 2 ^ 15 <= v < 2 ^ 15 -> le_int16 (enc_int16 v) = Some v.
Proof.
  intro H. unfold enc_int16.
  pose proof (of_signed_range 16 v ltac:(lia)) as R.
  assert (E: le_unsigned (le_encode 2 (of_signed 16 v)) = of_signed 16 v).
  { apply le_unsigned_encode. change (256 ^ Z.of_nat 2) with (2 ^ 16). exact R. }
  unfold le_int16. cbn [le_encode]. cbn [le_encode] in E. rewrite E.
  f_equal. apply to_of_signed; [lia|]. exact H.
Qed.

Theorem le_uint32_roundtrip w : 0 <= w < 2 ^ 32 -> le_uint32 (le_encode 4 w) = Some w.
Proof.
  intro H. assert (E: le_unsigned (le_encode 4 w) = w).
  { apply le_unsigned_encode. change (256 ^ Z.of_nat 4) with (2 ^ 32). exact H. }
  unfold le_uint32. cbn [le_encode]. cbn [le_encode] in E. now rewrite E.
Qed.

Lemma le_int32_range l v : bytes_ok l = true -> le_int32 l = Some v -> - 2 ^ 31 <= v < 2 ^ 31.
Proof.
  intros Hb H. unfold le_int32 in H.
  destruct l as [|a [|b [|c [|d [|]]]]]; try discriminate.
  pose proof (le_unsigned_range _ Hb) as R.
  change (256 ^ Z.of_nat (length [a; b; c; d])) with 4294967296 in R.
  remember (le_unsigned [a; b; c; d]) as u. clear Hequ.
  injection H as <-. unfold to_signed.
  change (2 ^ (32 - 1)) with 2147483648. change (2 ^ 32) with 4294967296. change (2 ^ 31) with 2147483648.
  destruct (Z.ltb_spec u 2147483648); lia.
Qed.

(* ---- binary32 ---- *)
Open Scope Q_scope.

Lemma scale2_pos_exp m k : (0 <= k)%Z -> scale2 m k = inject_Z (m * 2 ^ k).
Proof. intro H. unfold scale2. destruct (Z.leb_spec 0 k); auto; lia. Qed.

Lemma scale2_sign m k : (0 <= m)%Z -> 0 <= scale2 m k.
Proof.
  intro H. unfold scale2. destruct (0 <=? k)%Z eqn:E.
  - apply Z.leb_le in E. unfold Qle; simpl. assert (0 < 2 ^ k)%Z by (apply Z.pow_pos_nonneg; lia). nia.
  - unfold Qle; simpl. lia.
Qed.

Lemma scale2_zero_iff m k : scale2 m k == 0 <-> m = 0%Z.
Proof.
  unfold scale2. destruct (0 <=? k)%Z eqn:E.
  - apply Z.leb_le in E. assert (0 < 2 ^ k)%Z by (apply Z.pow_pos_nonneg; lia).
    unfold Qeq; simpl. split; intro; nia.
  - unfold Qeq; simpl. split; intro; lia.
Qed.

Lemma f32_of_bits_some w v : f32_of_bits w = Some v -> v = f32_val w /\ f32_exp w <> 255%Z.
Proof.
  unfold f32_of_bits. destruct (Z.eqb_spec (f32_exp w) 255); intro H; [discriminate|].
  split; [congruence|assumption].
Qed.

(* exponent 255 (infinities, NaN) is rejected, everything else has a value *)
Lemma f32_rejects_inf_nan w : f32_exp w = 255%Z <-> f32_of_bits w = None.
Proof.
  unfold f32_of_bits. destruct (Z.eqb_spec (f32_exp w) 255); split; intro; try congruence; auto.
Qed.

Lemma f32_mag_nonneg w : (0 <= w)%Z -> 0 <= f32_mag w.
Proof.
  intro Hw. unfold f32_mag.
  assert (M: (0 <= f32_man w)%Z) by (unfold f32_man; apply Z.mod_pos_bound; lia).
  destruct (f32_exp w =? 0)%Z; apply scale2_sign; lia.
Qed.

(* sign bit clear => value >= 0 *)
Lemma f32_nonneg w v : (0 <= w < 2 ^ 31)%Z -> f32_of_bits w = Some v -> 0 <= v.
Proof.
  intros Hw H. apply f32_of_bits_some in H as [-> _]. unfold f32_val.
  assert (S0: f32_sign w = 0%Z) by (unfold f32_sign; apply Z.div_small; lia).
  rewrite S0. cbn [Z.eqb]. rewrite Qred_correct. apply f32_mag_nonneg; lia.
Qed.

(* the value is 0 exactly for the patterns +0 and -0  (mantissa and exponent all clear) *)
Lemma f32_zero_iff w v : (0 <= w < 2 ^ 32)%Z -> f32_of_bits w = Some v ->
  (v == 0 <-> (w mod 2 ^ 31 = 0)%Z).
Proof.
  intros Hw H. apply f32_of_bits_some in H as [-> _]. unfold f32_val.
  rewrite Qred_correct.
  assert (M: (0 <= f32_man w < 2 ^ 23)%Z) by (unfold f32_man; apply Z.mod_pos_bound; lia).
  assert (D: (w mod 2 ^ 31 = 2 ^ 23 * f32_exp w + f32_man w)%Z).
  { unfold f32_exp, f32_man.
    change (2 ^ 31)%Z with (2 ^ 23 * 256)%Z. rewrite Z.rem_mul_r by lia. lia. }
  assert (Ex: (0 <= f32_exp w < 256)%Z) by (unfold f32_exp; apply Z.mod_pos_bound; lia).
  assert (Z0: forall q, (if (f32_sign w =? 0)%Z then q else - q) == 0 <-> q == 0).
  { intro q. destruct (f32_sign w =? 0)%Z; [tauto|]. split; intro Hq.
    - rewrite <- (Qopp_involutive q), Hq. reflexivity.
    - rewrite Hq. reflexivity. }
  rewrite Z0. unfold f32_mag.
  destruct (Z.eqb_spec (f32_exp w) 0) as [E0|E0].
  - rewrite scale2_zero_iff. lia.
  - rewrite scale2_zero_iff. lia.
Qed.

(* flipping the sign bit negates the value *)
Lemma f32_sign_flip w : (0 <= w < 2 ^ 31)%Z -> f32_val (w + 2 ^ 31) == - f32_val w
  /\ f32_exp (w + 2 ^ 31) = f32_exp w.
Proof.
  intros Hw.
  assert (S0: f32_sign w = 0%Z) by (unfold f32_sign; apply Z.div_small; lia).
  assert (S1: f32_sign (w + 2 ^ 31) = 1%Z).
  { unfold f32_sign. replace (w + 2 ^ 31)%Z with (w + 1 * 2 ^ 31)%Z by lia.
    rewrite Z.div_add by lia. rewrite Z.div_small; lia. }
  assert (E: f32_exp (w + 2 ^ 31) = f32_exp w).
  { unfold f32_exp. replace (w + 2 ^ 31)%Z with (w + 256 * 2 ^ 23)%Z by lia.
    rewrite Z.div_add by lia. replace (w / 2 ^ 23 + 256)%Z with (w / 2 ^ 23 + 1 * 256)%Z by lia.
    apply Z.mod_add; lia. }
  assert (Mn: f32_man (w + 2 ^ 31) = f32_man w).
  { unfold f32_man. replace (w + 2 ^ 31)%Z with (w + 256 * 2 ^ 23)%Z by lia. apply Z.mod_add; lia. }
  split; [|exact E].
  unfold f32_val, f32_mag. rewrite S1, S0, E, Mn. cbn [Z.eqb].
  rewrite !Qred_correct. reflexivity.
Qed.

(* concrete patterns (struct.pack('<f', x)) *)
Example f32_one : le_float32 [0; 0; 128; 63]%Z = Some 1.
Proof. vm_compute. reflexivity. Qed.
Example f32_120 : le_float32 [0; 0; 240; 66]%Z = Some 120.
Proof. vm_compute. reflexivity. Qed.
Example f32_neg_2_5 : le_float32 [0; 0; 32; 192]%Z = Some (-5 # 2).
Proof. vm_compute. reflexivity. Qed.
Example f32_min_denormal : le_float32 [1; 0; 0; 0]%Z = Some (1 # (2 ^ 149)).
Proof. vm_compute. reflexivity. Qed.
Example f32_max_denormal_lt_min_normal :
  match le_float32 [255; 255; 127; 0]%Z, le_float32 [0; 0; 128; 0]%Z with
  | Some a, Some b => Qle_bool a b && negb (Qeq_bool a b) | _, _ => false end = true.
Proof. vm_compute. reflexivity. Qed.
Example f32_inf_rejected : le_float32 [0; 0; 128; 127]%Z = None.
Proof. vm_compute. reflexivity. Qed.
Example f32_nan_rejected : le_float32 [1; 0; 192; 255]%Z = None.
Proof. vm_compute. reflexivity. Qed.
